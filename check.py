#!/usr/bin/env python3
"""python3 /verif/check.py <Cxx> [--tier quick|thorough]   -- see DESIGN.md sec. 2.5"""
import os
import sys

VENV_PY = "/venv/bin/python"
HERE = os.path.dirname(os.path.abspath(__file__))


def main():
    if os.environ.get("PYTHONHASHSEED") != "0" or os.path.realpath(sys.executable) != os.path.realpath(VENV_PY):
        env = dict(os.environ, PYTHONHASHSEED="0", TRANSACTRON_VERIF="1", PYTHONWARNINGS="ignore")
        if os.environ.get("_VERIF_REEXEC") == "1":
            print("re-exec loop", file=sys.stderr)
            sys.exit(2)
        env["_VERIF_REEXEC"] = "1"
        os.execve(VENV_PY, [VENV_PY, os.path.join(HERE, "check.py")] + sys.argv[1:], env)
    sys.path.insert(0, HERE)
    import argparse
    import importlib
    ap = argparse.ArgumentParser()
    ap.add_argument("prop")
    ap.add_argument("--tier", default=os.environ.get("VERIF_TIER", "quick"), choices=["quick", "thorough"])
    a = ap.parse_args()
    seed = int(os.environ.get("VERIF_SEED", "0") or 0)
    if a.tier == "thorough":
        # wall-time budget per explored configuration: a BFS that is still running after this many seconds stops at the
        # next level boundary and reports the depth it completed (quick tier: no budget, every run completes)
        os.environ.setdefault("VERIF_JOB_SECONDS", "600")
    os.chdir(HERE)
    from vlib.runner import Report
    prop = a.prop.upper()
    mod = importlib.import_module(f"checks.{prop.lower()}")
    rep = Report(prop, a.tier, seed)
    try:
        floors = mod.run(rep, a.tier)
    except Exception:
        import traceback
        traceback.print_exc()
        sys.exit(2)
    sys.exit(rep.finish(floors=floors))


if __name__ == "__main__":
    main()
