"""C01 -- an exclusive method serves at most one active call per cycle."""
from checks.core import run_core

PROP = "C01"


def run(rep, tier):
    return run_core(
        rep, "C01", ["flat_s", "chain_s", "ctrl", "xmod", "nest", "consten"], ["flat", "flat3_s", "chain_m", "ctrl", "xmod_l", "nest", "val", "prov", "consten"], tier,
        "every design of the listed families is built with the real library under both schedulers and explored by BFS over "
        "its register state (FSM state, sync witnesses, round-robin arbiter) with all 2^n input valuations in every state; per "
        "valuation the number of active call sites (caller runs, conditions hold, enable_call) of every exclusive method must "
        "be <= 1 and no two statically conflicting transactions may both run; non-trivial = valuations in which two "
        "conflicting transactions are both fully enabled",
        scheds=("eager", "rr"),
        floors={"designs_simulated": 500, "transitions": 100000, "nt_conflicting_both_enabled": 10000, "replayed": 100})
