"""C02 -- explicitly conflicting transactions and methods never run together."""
from checks.core import run_core

PROP = "C02"


def run(rep, tier):
    return run_core(
        rep, "C02", ['rel2', 'rel3', 'chain_s', 'provrel', 'xrel'], ['rel2', 'rel3', 'rel4', 'chain_m', 'provrel', 'xrel'], tier,
        "every design of the relation families (every assignment of add_conflict U/L/R / schedule_before / none to every pair of 2-3 bodies, on transactions and on methods, including one transaction calling both related methods) explored over all input valuations; for every add_conflict(a,b) the two bodies must never both run; non-trivial = valuations where both sides of a conflict are fully enabled",
        scheds=("eager", "rr"), floors={"designs_simulated": 100, "transitions": 5000, "nt_conflicting_both_enabled": 500})
