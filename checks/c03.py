"""C03 -- a transaction runs only when it is fully enabled."""
from checks.core import run_core
from vlib.runner import E1, run_jobs

PROP = "C03"


def nested_in_dead_jobs():
    """a plain nested transaction whose enclosing transaction is tied by simultaneity (Connect) to a partner that exists /
    that nobody calls: the nested transaction is ready-dependent on the enclosing body in either case (harness of C13)"""
    js = []
    for cfg in ({"kind": "dead", "shape": "live", "nested": True}, {"kind": "dead", "shape": "mixed", "nested": True},
                {"kind": "dead", "shape": "open", "n": 1, "nested": True}, {"kind": "dead", "shape": "open", "n": 2, "nested": True},
                {"kind": "dead", "shape": "open", "n": 2, "nested": True, "rev": True}):
        js.append(E1("checks.c13", "ConnH", cfg, replay_cap=2))
    return js


def run(rep, tier):
    floors = run_core(
        rep, "C03", ['flat_s', 'chain_s', 'ctrl', 'xmod', 'nest', 'val', 'rel2', 'prov'],['flat', 'flat3_s', 'chain_m', 'ctrl', 'xmod_l', 'nest', 'val', 'rel3', 'prov'], tier,
        "every design x register state x input valuation, both schedulers: run(T) implies ready(T), every method of the static call tree ready (also behind false conditions / enable_call), every validator accepting the arguments of the call sites whose conditions hold, and every ready-dependency (enclosing body, schedule_before(ready_dependent=True) source) running in the same cycle; plus a nested transaction inside a transaction that is simultaneous (Connect) with a live / an uncalled partner; non-trivial = valuations where a ready transaction is blocked by one of these clauses",
        scheds=("eager", "rr"), floors={"designs_simulated": 500, "transitions": 100000, "nt_blocked_by_callee_ready": 10000, "nt_blocked_by_validator": 100, "nt_blocked_by_ready_dependency": 100})
    rep.add_e1(run_jobs(nested_in_dead_jobs()))
    return floors
