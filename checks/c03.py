"""C03 -- a transaction runs only when it is fully enabled."""
from checks.core import run_core

PROP = "C03"


def run(rep, tier):
    return run_core(
        rep, "C03", ['flat_s', 'chain_s', 'ctrl', 'xmod', 'nest', 'val', 'rel2', 'prov'],['flat', 'flat3_s', 'chain_m', 'ctrl', 'xmod_l', 'nest', 'val', 'rel3', 'prov'], tier,
        "every design x register state x input valuation, both schedulers: run(T) implies ready(T), every method of the static call tree ready (also behind false conditions / enable_call), every validate_arguments predicate true on the arguments of the chain-enabled calls, and every ready-dependency source running; the ready signal itself is compared with the reference; non-trivial = valuations in which a ready transaction is blocked only by a callee, only by a validator, only by a ready-dependency",
        scheds=("eager", "rr"), floors={"designs_simulated": 500, "transitions": 100000, "nt_blocked_by_callee_ready": 10000, "nt_blocked_by_validator": 100, "nt_blocked_by_ready_dependency": 100})
