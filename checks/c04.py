"""C04 -- methods execute exactly when called by a running caller."""
from checks.core import run_core

PROP = "C04"


def run(rep, tier):
    return run_core(
        rep, "C04", ['flat_s', 'chain_s', 'ctrl', 'xmod', 'nest', 'prov', 'val', 'consten', 'plural'], ['flat', 'flat3_s', 'chain_m', 'ctrl', 'xmod_l', 'nest', 'val', 'prov', 'rel3', 'consten', 'plural'], tier,
        "every design x register state x input valuation: the observed Method.run equals the reference 'some call site is active' (caller runs, conditions hold, enable_call) in both directions, also through provide() aliases; never-called methods never run; nested bodies run only with their enclosing body; non-trivial = valuations with two or more enabled transactions",
        scheds=("eager", "rr"), floors={"designs_simulated": 500, "transitions": 100000, "nt_two_enabled": 10000})
