"""C05 -- call arguments and results are routed to the right party."""
from checks.core import run_core

PROP = "C05"


def run(rep, tier):
    return run_core(
        rep, "C05", ['flat_args_s', 'prov', 'val', 'consten', 'plural'], ['flat_args_s', 'prov', 'val', 'consten', 'plural'], tier,
        "designs whose methods take a 1-bit argument (free input per call site) and return its negation: when an exclusive method runs its data_in equals the argument of the single active site, a nonexclusive method sees the OR-combiner over exactly the active sites, every active caller's result copy equals the method output, also through provide() aliases; all valuations of argument / ready / condition inputs; non-trivial = valuations where a nonexclusive method combines two or more active calls",
        scheds=("eager",), floors={"designs_simulated": 500, "transitions": 100000, "nt_combiner_multi": 1000})
