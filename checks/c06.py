"""C06 -- body effects follow the run signal (av_comb / top_comb semantics)."""
from checks.core import run_core

PROP = "C06"


def run(rep, tier):
    return run_core(
        rep, "C06", ['nest', 'ctrl', 'flat_s', 'widecond'], ['nest', 'ctrl', 'flat', 'chain_s', 'widecond'], tier,
        "designs with one assignment per domain (comb, sync, av_comb, top_comb) at every block position of nested bodies and If/Switch/FSM blocks, explored over all register states and valuations: comb witness == body runs and all enclosing conditions, sync register toggles iff the same, av_comb witness == enclosing ordinary conditions only, top_comb witness == 1; call-site comb witnesses of all families are checked the same way",
        scheds=("eager",), floors={"designs_simulated": 100, "transitions": 20000})
