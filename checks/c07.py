"""C07 -- the eager scheduler wastes no cycle."""
from checks.core import run_core

PROP = "C07"


def run(rep, tier):
    return run_core(
        rep, "C07", ['flat_s', 'chain_s', 'ctrl', 'xmod', 'rel2', 'rel3', 'nest'], ['flat', 'flat3_s', 'chain_m', 'ctrl', 'xmod_l', 'rel3', 'rel4', 'nest', 'val'], tier,
        "every design x register state x valuation under eager_deterministic_cc_scheduler: a fully enabled transaction that does not run must have a statically conflicting transaction (reference conflict relation computed from syntax: join at an exclusive method on non-exclusive paths, or add_conflict) running in the same cycle; a spurious conflict edge in the library therefore shows up as a wasted cycle; non-trivial = valuations in which an enabled transaction is blocked by a running conflicting one",
        scheds=("eager",), floors={"designs_simulated": 500, "transitions": 100000, "nt_blocked_by_conflict": 10000})
