"""C08 -- conflict priorities are respected."""
from checks.core import run_core

PROP = "C08"


def run(rep, tier):
    return run_core(
        rep, "C08", ['rel2', 'rel3', 'provrel', 'xrel'], ['rel2', 'rel3', 'rel4', 'provrel', 'xrel'], tier,
        "relation families: for every prioritised add_conflict pair (lifted to the calling transactions) and every valuation in which both sides are fully enabled, the lower-priority side may run only if the higher one is blocked by another running conflicting transaction; non-trivial = valuations with both sides of a prioritised pair fully enabled",
        scheds=("eager",), floors={"designs_simulated": 100, "transitions": 5000, "nt_prio_both_enabled": 500})
