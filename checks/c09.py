"""C09 -- round-robin scheduler: one grant per component, no starvation."""
from checks.core import run_core

PROP = "C09"


def run(rep, tier):
    return run_core(
        rep, "C09", ["flat_s", "rel2", "rel3", "ctrl"], ["flat", "flat3_s", "rel2", "rel3", "rel4", "ctrl", "chain_s"], tier,
        "designs without intra-component ready dependencies built with trivial_roundrobin_cc_scheduler; BFS over the product of "
        "the arbiter registers (and FSM state) with a monitor holding one wait counter per transaction, all input valuations in "
        "every state: per connected component of the reference conflict graph at most one transaction runs, one runs whenever "
        "one is fully enabled, and no transaction stays enabled for |component| consecutive cycles without a grant; "
        "non-trivial = states/valuations with >=2 enabled transactions in one component, and waits of >=2 cycles",
        scheds=("rr",),
        floors={"designs_simulated": 500, "transitions": 100000, "nt_rr_contention": 10000, "nt_rr_waited_two_cycles": 100})
