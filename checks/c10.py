"""C10 -- well-formed designs elaborate without combinational loops."""
import importlib
from checks.core import FAMS_Q, ASSUME
from vlib.e2 import run_family_check
from vlib.runner import run_jobs

PROP = "C10"
COMPONENT_CHECKS = ["c14", "c15", "c16", "c17", "c19", "c20", "c21", "c22", "c24", "c25", "c26", "c27"]


def comp_job(module, cls, cfg):
    """build the component harness once and run the netlist combinational-cycle check on it"""
    from vlib import tsx
    H = getattr(importlib.import_module(module), cls)
    h = H(**cfg)
    if not hasattr(h, "_construct"):        # plain-Amaranth harness (RawHarness)
        from transactron.utils.dependencies import DependencyContext, DependencyManager
        with DependencyContext(DependencyManager()):
            try:
                tsx.check_comb_cycles(h.make()[0])
                return {"cls": cls, "cfg": cfg, "loop": None}
            except tsx.CombLoop as e:
                return {"cls": cls, "cfg": cfg, "loop": str(e)[:300]}
    try:
        top, ports, xin, xobs, ctx = h._construct()
    except Exception as e:      # the library refuses to build a well-formed design (every harness builds on the unchanged tree)
        return {"cls": cls, "cfg": cfg, "loop": None, "elab": f"{type(e).__name__}: {str(e)[:200]}"}
    try:
        tsx.check_comb_cycles(top)
        return {"cls": cls, "cfg": cfg, "loop": None}
    except tsx.CombLoop as e:
        return {"cls": cls, "cfg": cfg, "loop": str(e)[:300]}
    except Exception as e:
        return {"cls": cls, "cfg": cfg, "loop": None, "elab": f"{type(e).__name__}: {str(e)[:200]}"}
    finally:
        ctx.__exit__(None, None, None)


def run(rep, tier):
    rep.rule = ("every accepted, well-formed design of all core families (incl. the Forwarder/Pipe-style family 'fwd' in which a "
                "method's ready reads the run of a body scheduled before it while the calling transactions also conflict) and "
                "every library-component harness of the E1 checks is elaborated a second time and passed through Amaranth's "
                "bit-precise netlist builder (check_comb_cycles); a CombinationalCycle is a violation. A 'state' here is one "
                "design, a 'transition' one netlist build; non-trivial = designs of the fwd family + designs with conflicts")
    rep.assumptions = ASSUME + ["amaranth.hdl._ir.build_netlist's check_comb_cycles is the definition of a combinational cycle"]
    fams = ["fwd", "flat_s", "chain_s", "ctrl", "rel2", "rel3", "nest", "val", "prov", "provrel"] if tier == "quick" else \
        ["fwd", "flat", "flat3_s", "flat_args_s", "chain", "ctrl", "rel2", "rel3", "rel4", "nest", "val", "prov", "provrel"]
    FAMS_Q.setdefault("fwd", ("fwd", {}))
    run_family_check(rep, "C10", [FAMS_Q[n] for n in fams], simulate=False, props=["C10"])
    # library components
    jobs = []
    for name in COMPONENT_CHECKS + ["c18", "c23", "c28", "c29", "c30", "c31", "c32", "c39", "c12", "c13"]:
        try:
            mod = importlib.import_module(f"checks.{name}")
        except ImportError:
            continue
        if not hasattr(mod, "jobs"):
            continue
        js = mod.jobs(tier)
        if isinstance(js, tuple):
            js = list(js[0]) + list(js[1])
        for _, func, kw in js:
            if func == "e1_job":
                jobs.append(("checks.c10", "comp_job", {"module": kw["module"], "cls": kw["cls"], "cfg": kw["cfg"]}))
    # condition() in a conditionally called method whose branch calls a method with validate_arguments (quick tier of C12 does
    # not contain this shape; thorough does)
    for encl in ("m1c", "m2c", "m1", "m2"):
        for blk in ({"nb": False, "prio": False, "br": [{"c": True, "calls": 1}]},
                    {"nb": True, "prio": True, "br": [{"c": True, "calls": 1}, {"c": True, "calls": 2}, {"c": False, "calls": 0}]}):
            cfg = {"encl": encl, "block": blk, "val": True}
            if not any(j[2]["cfg"] == cfg for j in jobs):
                jobs.append(("checks.c10", "comp_job", {"module": "checks.c12", "cls": "CondH", "cfg": cfg}))
    for r in run_jobs(jobs):
        if r.get("error"):
            rep.errors.append(r["error"])
            continue
        rep.bump("component_harnesses")
        rep.states += 1
        rep.transitions += 1
        rep.evaluations += 1
        if r["loop"]:
            rep.violation(where=r["cls"], cfg=r["cfg"], clause="comb_loop: " + r["loop"], path=None,
                          replay={"kind": "e1", "module": "checks." + r["cls"], "cls": r["cls"], "cfg": r["cfg"], "path": []})
        elif r.get("elab"):
            rep.violation(where=r["cls"], cfg=r["cfg"], clause="elaboration: the design does not elaborate: " + r["elab"], path=None,
                          replay={"kind": "e1", "module": "checks." + r["cls"], "cls": r["cls"], "cfg": r["cfg"], "path": []})
    rep.nontrivial = rep.counters.get("designs_accepted", 0)
    return {"designs": 1000, "designs_accepted": 500, "component_harnesses": 50}
