"""C11 -- ill-formed designs are rejected, well-formed ones accepted."""
from checks.core import FAMS_Q, ASSUME
from vlib.e2 import run_family_check

PROP = "C11"


def accepts_job(cfg):
    """elaborates one Connect/simultaneous design of the C13 harness; reports whether the library rejects it"""
    import warnings
    from amaranth.hdl import Fragment
    from checks.c13 import ConnH
    h = ConnH(**cfg)
    top, _, _, _, ctx = h._construct()
    try:
        with warnings.catch_warnings():
            warnings.simplefilter("ignore")
            Fragment.get(top, None)
        return {"cfg": cfg, "rejected": None}
    except Exception as e:
        return {"cfg": cfg, "rejected": f"{type(e).__name__}: {str(e).strip()[:100]}"}
    finally:
        ctx.__exit__(None, None, None)


def run(rep, tier):
    rep.rule = ("every design of all core families plus the deliberately ill-formed family 'bad' (recursion of length 1-3, priority "
                "cycles of length 1-3 from add_conflict/schedule_before on transactions and methods, single_caller from two "
                "callers, ready-dependency on a conflicting transaction, schedule_before against definition order, repeated "
                "calls of (non)exclusive methods) is elaborated by the real library; elaboration raises <=> the reference "
                "well-formedness predicate (computed from syntax) says ill-formed. A 'state' is one design, a 'transition' one "
                "elaboration verdict; non-trivial = rejected designs (each must be rejected for a reference reason)")
    rep.assumptions = ASSUME + ["single_caller with two call sites inside ONE caller is not generated (statement only requires "
                                "rejection for two transactions; the library also rejects that shape)"]
    fams = ["bad", "ctrl", "xmod", "flat_s", "chain_s", "rel2", "rel3", "nest", "val", "prov", "provrel", "fwd"] if tier == "quick" else \
        ["bad", "ctrl", "xmod_l", "flat", "flat3_s", "chain", "rel2", "rel3", "rel4", "nest", "val", "prov", "provrel", "fwd"]
    FAMS_Q.setdefault("fwd", ("fwd", {}))
    run_family_check(rep, "C11", [FAMS_Q[n] for n in fams], simulate=False, props=["C11"])
    # designs built around Connect / simultaneous() (not expressible in the DSL): chains of Connects whose stages share a
    # *nonexclusive* method are free of every defect the statement lists and must elaborate
    from vlib.runner import run_jobs
    jobs = []
    for n in (1, 2, 3):
        for zmask in range(1, 1 << (n + 1)):
            jobs.append(("checks.c11", "accepts_job", {"cfg": {"kind": "chain", "n": n, "zmask": zmask, "znx": True}}))
    for nw, nr in ((1, 1), (2, 1), (1, 2), (2, 2)):
        for extra in range(1 << (nw + nr)):
            jobs.append(("checks.c11", "accepts_job", {"cfg": {"kind": "connect", "nw": nw, "nr": nr, "extra": extra, "rev": True}}))
    for r in run_jobs(jobs):
        if r.get("error") and "cfg" not in r:
            rep.errors.append(r["error"])
            continue
        rep.bump("designs")
        rep.bump("simultaneity_designs")
        rep.states += 1
        rep.transitions += 1
        rep.evaluations += 1
        if r["rejected"]:
            rep.bump("designs_rejected")
            rep.violation(where="ConnH", cfg=r["cfg"], clause="elaboration.verdict: library rejects (" + r["rejected"] +
                          ") a design with none of the listed defects", path=None,
                          replay={"kind": "e1", "module": "checks.c13", "cls": "ConnH", "cfg": r["cfg"], "path": []})
        else:
            rep.bump("designs_accepted")
    rep.nontrivial = rep.counters.get("designs_rejected", 0)
    return {"designs": 1000, "designs_accepted": 500, "designs_rejected": 500}
