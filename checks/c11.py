"""C11 -- ill-formed designs are rejected, well-formed ones accepted."""
from checks.core import FAMS_Q, ASSUME
from vlib.e2 import run_family_check

PROP = "C11"


def run(rep, tier):
    rep.rule = ("every design of all core families plus the deliberately ill-formed family 'bad' (recursion of length 1-3, priority "
                "cycles of length 1-3 from add_conflict/schedule_before on transactions and methods, single_caller from two "
                "callers, ready-dependency on a conflicting transaction, schedule_before against definition order, repeated "
                "calls of (non)exclusive methods) is elaborated by the real library; elaboration raises <=> the reference "
                "well-formedness predicate (computed from syntax) says ill-formed. A 'state' is one design, a 'transition' one "
                "elaboration verdict; non-trivial = rejected designs (each must be rejected for a reference reason)")
    rep.assumptions = ASSUME + ["single_caller with two call sites inside ONE caller is not generated (statement only requires "
                                "rejection for two transactions; the library also rejects that shape)"]
    fams = ["bad", "ctrl", "xmod", "flat_s", "chain_s", "rel2", "rel3", "nest", "val", "prov", "provrel", "fwd"] if tier == "quick" else \
        ["bad", "ctrl", "xmod_l", "flat", "flat3_s", "chain", "rel2", "rel3", "rel4", "nest", "val", "prov", "provrel", "fwd"]
    FAMS_Q.setdefault("fwd", ("fwd", {}))
    run_family_check(rep, "C11", [FAMS_Q[n] for n in fams], simulate=False, props=["C11"])
    rep.nontrivial = rep.counters.get("designs_rejected", 0)
    return {"designs": 1000, "designs_accepted": 500, "designs_rejected": 500}
