"""C12 -- condition() picks one admissible branch."""
import itertools
from amaranth import Elaboratable, Signal, C
from vlib.ports import MethodHarness
from vlib.runner import E1, run_jobs

PROP = "C12"


class CondDesign(Elaboratable):
    """block := {"nb": bool, "prio": bool, "br": [{"c": bool (False = default), "calls": mask, "inner": block|None}]}"""

    def __init__(self, cfg):
        self.cfg = cfg
        self.nm = 2
        self.rdy = [Signal(name=f"r{i}") for i in range(self.nm)]
        self.re = Signal(name="re")
        # "m1d": the caller calls a middle method P under m.If, P calls the enclosing method unconditionally
        # "m0": the enclosing method is never called
        self.ncallers = {"t": 0, "m0": 0, "m1": 1, "m2": 2, "m1c": 1, "m2c": 2, "m1d": 1}[cfg["encl"]]
        self.cc = [Signal(name=f"cc{i}") for i in range(self.ncallers)] if cfg["encl"][-1] in "cd" else []
        self.rc = [Signal(name=f"rc{i}") for i in range(self.ncallers)]
        self.conds = []
        self.args = []
        self.wit = []
        self.inputs = []
        self.meta = []   # per witness: (parent witness index or None, block id, branch index)

    def elaborate(self, platform):
        from transactron import Method, TModule, Transaction, def_method
        from transactron.lib.simultaneous import condition
        cfg = self.cfg
        m = TModule()
        val = cfg.get("val", False)
        self.ms = [Method(name=f"M{i}", i=[("a", 1)] if (val and i == 0) else []) for i in range(self.nm)]
        for i, meth in enumerate(self.ms):
            kw = {}
            if val and i == 0:
                kw["validate_arguments"] = lambda a: a == 1

                @def_method(m, meth, ready=self.rdy[i], **kw)
                def _(a):
                    pass
            else:
                # cfg "nx": the callees are nonexclusive, so the enclosing body ("ecalls" mask) and nested branches may
                # call the same method
                @def_method(m, meth, ready=self.rdy[i], nonexclusive=bool(cfg.get("nx", False)))
                def _():
                    pass

        def emit_block(block):
            with condition(m, nonblocking=block["nb"], priority=block["prio"]) as branch:
                for b in block["br"]:
                    if b["c"]:
                        c = Signal(cfg.get("cw", 1), name=f"c{len(self.conds)}")
                        self.conds.append(c)
                        b["_c"] = len(self.conds) - 1
                        ctx = branch(c)
                    else:
                        ctx = branch()
                    with ctx:
                        w = Signal(name=f"w{len(self.wit)}")
                        b["_w"] = len(self.wit)
                        self.wit.append(w)
                        m.d.comb += w.eq(1)
                        for i in range(self.nm):
                            if (b["calls"] >> i) & 1:
                                if val and i == 0:
                                    a = Signal(name=f"a{len(self.args)}")
                                    b["_a"] = len(self.args)
                                    self.args.append(a)
                                    self.ms[i](m, a=a)
                                else:
                                    self.ms[i](m)
                        if b.get("inner"):
                            emit_block(b["inner"])

        def encl_body():
            for i in range(self.nm):
                if (cfg.get("ecalls", 0) >> i) & 1:
                    self.ms[i](m)
            emit_block(cfg["block"])

        if cfg["encl"] == "t":
            self.encl = Transaction(name="E")
            with self.encl.body(m, ready=self.re):
                encl_body()
        else:
            self.encl = Method(name="E")

            @def_method(m, self.encl, ready=self.re)
            def _():
                encl_body()

            target = self.encl
            if cfg["encl"] == "m1d":
                self.mid = Method(name="P")

                @def_method(m, self.mid)
                def _():
                    self.encl(m)
                target = self.mid

            self.callers = []
            for i in range(self.ncallers):
                t = Transaction(name=f"C{i}")
                self.callers.append(t)
                with t.body(m, ready=self.rc[i]):
                    if self.cc:
                        with m.If(self.cc[i]):     # conditionally called enclosing method
                            target(m)
                    else:
                        target(m)
        return m


class CondH(MethodHarness):
    def make(self):
        import copy
        self.cfg2 = copy.deepcopy(self.cfg)
        d = CondDesign(self.cfg2)
        self.d = d
        return d, [], [], []

    def build(self, comb_check=True):
        # handles exist only after elaboration: build twice (the first, throw-away, construction also does the comb check)
        from vlib import tsx
        from amaranth.hdl import Fragment
        import warnings
        if comb_check:
            top, _, _, _, ctx = self._construct()
            try:
                tsx.check_comb_cycles(top)
            finally:
                ctx.__exit__(None, None, None)
        top, ports, _, _, ctx = self._construct()
        try:
            with warnings.catch_warnings():
                warnings.simplefilter("ignore")
                frag = Fragment.get(top, None)
            d = self.d
            inputs = [("re", d.re)] + [(f"rc{i}", s) for i, s in enumerate(d.rc)] + [(f"r{i}", s) for i, s in enumerate(d.rdy)]
            inputs += [(f"c{i}", s) for i, s in enumerate(d.conds)] + [(f"a{i}", s) for i, s in enumerate(d.args)]
            inputs += [(f"cc{i}", s) for i, s in enumerate(d.cc)]
            obs = [("E.run", d.encl.run)] + [(f"w{i}", s) for i, s in enumerate(d.wit)]
            obs += [(f"M{i}.run", mt.run) for i, mt in enumerate(d.ms)]
            obs += [(f"C{i}.run", t.run) for i, t in enumerate(getattr(d, "callers", []))]
            self.ports, self.port = [], {}
            self.input_names = [n for n, _ in inputs]
            self.obs_names = [n for n, _ in obs]
            self.n_inputs = len(inputs)
            self.drv = tsx.Driver(frag, inputs, obs)
        finally:
            ctx.__exit__(None, None, None)
        return self.drv

    def alphabet(self, ref):
        if not hasattr(self, "_alpha"):
            # conditions may be multi-bit values (cfg "cw"): "holds" = non-zero, as for Amaranth's If
            doms = [range(1 << self.cfg.get("cw", 1)) if n[0] == "c" and n[1:].isdigit() else (0, 1) for n in self.input_names]
            self._alpha = [tuple(v) for v in itertools.product(*doms)]
        return self._alpha

    def step(self, ref, inp, obs):
        I = dict(zip(self.input_names, inp))
        O = dict(zip(self.obs_names, obs))
        V = []
        val = self.cfg.get("val", False)

        def callees_ok(b):
            ok = all(I[f"r{i}"] for i in range(2) if (b["calls"] >> i) & 1)
            if val and (b["calls"] & 1):
                ok = ok and I[f"a{b['_a']}"] == 1
            return bool(ok)

        def check_block(block, encl_run, depth):
            brs = block["br"]
            conds = [bool(I[f"c{b['_c']}"]) if b["c"] else None for b in brs]
            anyc = any(c for c in conds if c is not None)
            runs = [bool(O[f"w{b['_w']}"]) for b in brs]
            for k, b in enumerate(brs):
                c = conds[k] if b["c"] else (not anyc)
                if runs[k]:
                    if not encl_run:
                        V.append(f"branch.without_enclosing: branch {k} (depth {depth}) runs while the enclosing body does not")
                    if not c:
                        V.append(f"branch.condition: branch {k} (depth {depth}) runs although its condition is false"
                                 if b["c"] else f"default.condition: default branch runs although another condition holds")
                    if not callees_ok(b):
                        V.append(f"branch.callee_not_ready: branch {k} (depth {depth}) runs although a method it calls is not "
                                 f"ready / rejects the argument")
                    if block["prio"]:
                        for j in range(k):
                            cj = conds[j] if brs[j]["c"] else (not anyc)
                            if cj and callees_ok(brs[j]) and self._inner_admissible(brs[j], I):
                                V.append(f"priority: branch {k} (depth {depth}) runs although earlier branch {j} is admissible")
            if sum(runs) > 1:
                V.append(f"branch.multiple: {sum(runs)} branches of one condition block (depth {depth}) run in one cycle")
            if encl_run and not any(runs):
                if not (block["nb"] and not anyc):
                    V.append(f"enclosing.without_branch: enclosing body runs, no branch runs (depth {depth}, nonblocking="
                             f"{block['nb']}, some condition holds={anyc})")
                else:
                    self.count("nt_nonblocking_fallthrough")
            if sum(1 for c in conds if c) >= 2:
                self.count("nt_overlapping_conditions")
            for k, b in enumerate(brs):
                if b.get("inner"):
                    check_block(b["inner"], runs[k], depth + 1)

        erun = bool(O["E.run"])
        check_block(self.cfg2["block"], erun, 0)
        # methods run only through running branches (C04 flavour, cheap to check here)
        for i in range(2):
            exp = any(O[f"w{b['_w']}"] for b in self._all_branches(self.cfg2["block"]) if (b["calls"] >> i) & 1)
            if (self.cfg.get("ecalls", 0) >> i) & 1:
                exp = exp or erun
                if erun and not I[f"r{i}"]:
                    V.append(f"enclosing.callee_not_ready: the enclosing body runs although M{i}, which it calls, is not ready")
            if bool(O[f"M{i}.run"]) != bool(exp):
                V.append(f"callee.run: M{i}.run={O[f'M{i}.run']} but branches calling it running={int(bool(exp))}")
        if self.cfg["encl"] != "t":
            exp = any(O[f"C{i}.run"] and (I[f"cc{i}"] if self.d.cc else 1) for i in range(len(self.d.rc)))
            if erun != bool(exp):
                V.append(f"enclosing.run: E.run={int(erun)} but callers running with their call condition={int(bool(exp))}")
            if any(O[f"C{i}.run"] and not I[f"cc{i}"] for i in range(len(self.d.cc))):
                self.count("nt_caller_runs_without_calling")
        if erun:
            self.count("nt_enclosing_runs")
        elif I["re"] and (self.cfg["encl"] == "t" or any(I[f"rc{i}"] for i in range(len(self.d.rc)))):
            self.count("nt_enclosing_blocked")
        return V, ()

    def _inner_admissible(self, b, I):
        """a branch containing a condition block can only run if that block can proceed"""
        blk = b.get("inner")
        if not blk:
            return True
        conds = [bool(I[f"c{x['_c']}"]) for x in blk["br"] if x["c"]]
        anyc = any(conds)
        if blk["nb"] and not anyc:
            return True
        for x in blk["br"]:
            c = bool(I[f"c{x['_c']}"]) if x["c"] else not anyc
            ok = all(I[f"r{i}"] for i in range(2) if (x["calls"] >> i) & 1)
            if self.cfg.get("val", False) and (x["calls"] & 1):
                ok = ok and I[f"a{x['_a']}"] == 1
            if c and ok and self._inner_admissible(x, I):
                return True
        return False

    def _all_branches(self, block):
        for b in block["br"]:
            yield b
            if b.get("inner"):
                yield from self._all_branches(b["inner"])


def blocks(max_br, masks, nested=False):
    for nb in (False, True):
        for prio in (False, True):
            for n in range(1, max_br + 1):
                for calls in itertools.product(masks, repeat=n):
                    for dflt in [None] + list(masks[:2]):
                        br = [{"c": True, "calls": c} for c in calls]
                        if dflt is not None:
                            br.append({"c": False, "calls": dflt})
                        yield {"nb": nb, "prio": prio, "br": br}
    if nested:
        for nb, prio, inb, inprio in itertools.product((False, True), repeat=4):
            for outer_calls in (0, 1):
                for ic in [(0, 0), (1, 2), (2, 2), (1, 0)]:
                    if outer_calls & (ic[0] | ic[1]):
                        continue   # parent branch and nested branch calling the same exclusive method: ill-formed (C11)
                    inner = {"nb": inb, "prio": inprio, "br": [{"c": True, "calls": ic[0]}, {"c": True, "calls": ic[1]}]}
                    yield {"nb": nb, "prio": prio, "br": [{"c": True, "calls": outer_calls, "inner": inner},
                                                          {"c": True, "calls": 2}]}
                    yield {"nb": nb, "prio": prio, "br": [{"c": True, "calls": outer_calls},
                                                          {"c": False, "calls": 0, "inner": inner}]}


def deep_blocks():
    """two levels of nesting: three lexically nested condition blocks, the innermost one calling M0"""
    for nb, prio in itertools.product((False, True), repeat=2):
        for where in (0, 1):
            innermost = {"nb": nb, "prio": prio, "br": [{"c": True, "calls": 1}]}
            mid_br = [{"c": True, "calls": 0}, {"c": True, "calls": 2}]
            mid_br[where] = dict(mid_br[where], inner=innermost)
            mid = {"nb": False, "prio": False, "br": mid_br}
            yield {"nb": False, "prio": False, "br": [{"c": True, "calls": 0, "inner": mid}]}
            yield {"nb": nb, "prio": prio, "br": [{"c": True, "calls": 0, "inner": mid}, {"c": False, "calls": 0}]}


def nx_blocks():
    """(ecalls, block) with nonexclusive callees: the enclosing body and a nested branch call the same method; two branches
    of one block call the same method.  (Directly simultaneous co-callers -- enclosing body and a branch of its own block --
    are rejected by the library at elaboration, C11's subject, and are not generated.)"""
    for nb, prio in itertools.product((False, True), repeat=2):
        inner = {"nb": False, "prio": False, "br": [{"c": True, "calls": 3}, {"c": True, "calls": 0}]}
        yield 1, {"nb": nb, "prio": prio, "br": [{"c": True, "calls": 0, "inner": inner}]}
        inner = {"nb": False, "prio": False, "br": [{"c": True, "calls": 1}]}
        yield 1, {"nb": nb, "prio": prio, "br": [{"c": True, "calls": 2, "inner": inner}, {"c": True, "calls": 0}]}
        yield 0, {"nb": nb, "prio": prio, "br": [{"c": True, "calls": 1}, {"c": True, "calls": 1}]}
        yield 0, {"nb": nb, "prio": prio, "br": [{"c": True, "calls": 1}, {"c": True, "calls": 3}, {"c": False, "calls": 1}]}


def jobs(tier):
    js = []
    for encl in ("t", "m0", "m1", "m1c", "m1d") if tier == "quick" else ("t", "m0", "m1", "m2", "m1c", "m2c", "m1d"):
        for blk in deep_blocks():
            js.append(E1("checks.c12", "CondH", {"encl": encl, "block": blk}, replay_cap=2))
    for encl in ("t", "m1", "m1c"):
        for ecalls, blk in nx_blocks():
            js.append(E1("checks.c12", "CondH", {"encl": encl, "block": blk, "nx": True, "ecalls": ecalls}, replay_cap=2))
    for blk in blocks(2, [0, 1], nested=True):
        js.append(E1("checks.c12", "CondH", {"encl": "m0", "block": blk}, replay_cap=2))
    if tier == "quick":
        for encl in ("t", "m1", "m2", "m1c"):
            for blk in blocks(2, [0, 1, 2]):
                js.append(E1("checks.c12", "CondH", {"encl": encl, "block": blk}, replay_cap=2))
        for blk in blocks(2, [0, 1], nested=True):
            if any(b.get("inner") for b in blk["br"]):
                js.append(E1("checks.c12", "CondH", {"encl": "t", "block": blk}, replay_cap=2))
                if not blk["nb"] or not blk["prio"]:
                    js.append(E1("checks.c12", "CondH", {"encl": "m1c", "block": blk}, replay_cap=2))
                if not blk["nb"] and not blk["prio"]:
                    js.append(E1("checks.c12", "CondH", {"encl": "m1d", "block": blk}, replay_cap=2))
        for blk in blocks(2, [0, 1]):
            js.append(E1("checks.c12", "CondH", {"encl": "m1d", "block": blk}, replay_cap=2))
        for blk in blocks(2, [1, 2]):
            js.append(E1("checks.c12", "CondH", {"encl": "t", "block": blk, "val": True}, replay_cap=2))
        for blk in blocks(2, [0, 1]):
            js.append(E1("checks.c12", "CondH", {"encl": "t", "block": blk, "cw": 2}, replay_cap=2))
    else:
        for encl in ("t", "m1", "m2", "m1c", "m2c", "m1d"):
            for blk in blocks(3, [0, 1, 2, 3], nested=True):
                js.append(E1("checks.c12", "CondH", {"encl": encl, "block": blk}, replay_cap=2))
            for blk in blocks(2, [1, 2, 3]):
                js.append(E1("checks.c12", "CondH", {"encl": encl, "block": blk, "val": True}, replay_cap=2))
            for blk in blocks(2, [0, 1, 2]):
                js.append(E1("checks.c12", "CondH", {"encl": encl, "block": blk, "cw": 2}, replay_cap=2))
    return js


def run(rep, tier):
    rep.rule = ("every condition() design of a bounded family (enclosing body = transaction / method with 1-2 callers; 1-2 (3 thorough) "
                "conditional branches + optional default; nonblocking x priority; every branch calls a subset of two methods with "
                "free readiness, shared callees included; one level of nesting; a validate_arguments variant) x all input "
                "valuations; branch activity observed through a comb witness in every branch; the five clauses of the "
                "statement evaluated per block; non-trivial = valuations with overlapping true conditions, nonblocking "
                "fall-through, enclosing body blocked")
    rep.assumptions = ["pysim semantics", "branch callees are not shared with transactions outside the condition block "
                       "('admissible' = condition, callees ready, arguments valid)"]
    rs = run_jobs(jobs(tier), chunksize=8)
    # a design whose netlist has a combinational cycle is never simulated; cycles are C10's subject (C10 builds the netlist
    # of every harness of this check), here such a design is only counted
    kept = []
    for r in rs:
        if r.get("comb_loop"):
            rep.bump("designs_with_comb_loop_left_to_C10")
            rep.exhaustive = False
        else:
            kept.append(r)
    rep.add_e1(kept)
    rep.per_config = rep.per_config[:40]
    return {"states": 300, "transitions": 20000, "nt_overlapping_conditions": 2000, "nt_nonblocking_fallthrough": 500,
            "nt_enclosing_blocked": 1000, "nt_enclosing_runs": 2000}
