"""C13 -- simultaneous methods run together and exchange data."""
import itertools
from amaranth import Elaboratable, Signal
from vlib.runner import E1, run_jobs
from checks.c12 import CondH

PROP = "C13"


class ConnDesign(Elaboratable):
    """cfg: kind "connect": nw writers, nr readers, extra = bitmask over callers (writers first) that also call an own
    method X_i with free readiness, rev = reverse data path present.   kind "sim": two transactions a.simultaneous(b),
    each calling an own method with free readiness; third = an extra transaction conflicting with a's callee."""

    def __init__(self, cfg):
        self.cfg = cfg
        self.inputs = []
        self.obs = []

    def sig(self, name, w=1):
        s = Signal(w, name=name)
        self.inputs.append((name, s))
        return s

    def elaborate(self, platform):
        from transactron import Method, TModule, Transaction, def_method
        from transactron.lib.connectors import Connect
        cfg = self.cfg
        m = TModule()
        if cfg["kind"] == "connect":
            rev = cfg.get("rev", True)
            m.submodules.conn = conn = Connect([("d", 1)], [("r", 1)] if rev else [])
            self.callers = []
            n = cfg["nw"] + cfg["nr"]
            for k in range(n):
                is_w = k < cfg["nw"]
                rdy = self.sig(f"rdy{k}")
                arg = self.sig(f"arg{k}") if (is_w or rev) else None
                x = None
                if (cfg.get("extra", 0) >> k) & 1:
                    x = Method(name=f"X{k}")
                    xr = self.sig(f"xr{k}")

                    @def_method(m, x, ready=xr)
                    def _():
                        pass
                t = Transaction(name=("W" if is_w else "R") + str(k))
                res = Signal(name=f"res{k}")
                with t.body(m, ready=rdy):
                    if is_w:
                        r = conn.write(m, d=arg)
                        if rev:
                            m.d.top_comb += res.eq(r.r)
                    else:
                        r = conn.read(m, r=arg) if rev else conn.read(m)
                        m.d.top_comb += res.eq(r.d)
                    if x is not None:
                        x(m)
                self.obs += [(f"run{k}", t.run), (f"res{k}", res)]
            self.obs += [("read.run", conn.read.run), ("write.run", conn.write.run)]
        elif cfg["kind"] == "chain":
            # n Connects in a row: stage 0 writes c0, stage i reads c(i-1) and writes ci, stage n reads c(n-1); the stages
            # in `zmask` also call a common method Z (nonexclusive unless znx is false)
            n = cfg["n"]
            conns = [Connect([("d", 1)]) for _ in range(n)]
            for i, c in enumerate(conns):
                m.submodules[f"c{i}"] = c
            z = Method(name="Z")
            zr = self.sig("zr")

            @def_method(m, z, ready=zr, nonexclusive=cfg.get("znx", True))
            def _():
                pass
            arg = self.sig("arg0")
            res = Signal(name="res")
            for k in range(n + 1):
                rdy = self.sig(f"rdy{k}")
                t = Transaction(name=f"S{k}")
                with t.body(m, ready=rdy):
                    d = arg if k == 0 else conns[k - 1].read(m).d
                    if k < n:
                        conns[k].write(m, d=d)
                    else:
                        m.d.top_comb += res.eq(d)
                    if (cfg.get("zmask", 0) >> k) & 1:
                        z(m)
                self.obs.append((f"run{k}", t.run))
            for i, c in enumerate(conns):
                self.obs += [(f"c{i}.read.run", c.read.run), (f"c{i}.write.run", c.write.run)]
            self.obs.append(("res", res))
        elif cfg["kind"] == "dead":
            # Connect halves that nobody calls: everything simultaneous with them (transitively) can never run.
            # shape "mixed": W writes c0 (c0.read uncalled) and c1; W2 writes c1; R reads c1.
            # shape "open": SRC -c0-> S1 -c1-> ... -c(n-1)-> (no reader); "rev": the Connects are created last-first
            n = 2 if cfg["shape"] == "mixed" else (1 if cfg["shape"] == "live" else cfg["n"])
            order = list(range(n))[::-1] if cfg.get("rev") else list(range(n))
            conns = {}
            for i in order:
                conns[i] = Connect([("d", 1)])
                m.submodules[f"c{i}"] = conns[i]
            if cfg["shape"] == "mixed":
                plan = [("W", [0, 1], None), ("W2", [1], None), ("R", [], 1)]
            elif cfg["shape"] == "live":          # nothing dead: W -c0-> R
                plan = [("W", [0], None), ("R", [], 0)]
            else:
                plan = [(f"S{k}", [k], (k - 1) if k else None) for k in range(n)]
            for k, (name, writes, reads) in enumerate(plan):
                rdy = self.sig(f"rdy{k}")
                arg = self.sig(f"arg{k}")
                t = Transaction(name=name)
                with t.body(m, ready=rdy):
                    d = arg if reads is None else (conns[reads].read(m).d ^ arg)
                    for w in writes:
                        conns[w].write(m, d=d)
                    if cfg.get("nested") and k == 0:
                        # a plain nested transaction in the first stage, calling an own method
                        xm = Method(name="XN")

                        @def_method(m, xm)
                        def _():
                            pass
                        nt = Transaction(name="N")
                        with nt.body(m, ready=self.sig("nrdy")):
                            xm(m)
                        self.obs += [("nested.run", nt.run), ("XN.run", xm.run)]
                self.obs.append((f"run{k}", t.run))
            for i in range(n):
                self.obs += [(f"c{i}.read.run", conns[i].read.run), (f"c{i}.write.run", conns[i].write.run)]
            self.nconn, self.plan = n, plan
        elif cfg["kind"] == "simg":
            self.elab_simg(m, cfg)
        else:
            ms = []
            for k in range(2):
                x = Method(name=f"X{k}")
                xr = self.sig(f"xr{k}")

                @def_method(m, x, ready=xr)
                def _():
                    pass
                ms.append(x)
            ts = []
            for k in range(2):
                t = Transaction(name=f"S{k}")
                rdy = self.sig(f"rdy{k}")
                with t.body(m, ready=rdy):
                    ms[k](m)
                ts.append(t)
                self.obs += [(f"run{k}", t.run), (f"X{k}.run", ms[k].run)]
            if cfg.get("third"):
                t = Transaction(name="S2")
                rdy = self.sig("rdy2")
                with t.body(m, ready=rdy):
                    ms[0](m)
                self.obs += [("run2", t.run)]
            ts[0].simultaneous(ts[1])
        return m


def _elab_simg(self, m, cfg):
    """kind "simg": user-declared simultaneity beyond Connect.  shape "tt3": three transactions (chain or star declaration);
    "alt": S0.simultaneous_alternatives(S1, S2); "mm": two user methods exchanging data in both directions, Y1 with 1-2
    callers; "tm": a transaction simultaneous with a method that has 1-2 callers."""
    from amaranth import Signal as Sig
    from transactron import Method, Transaction, def_method
    shape = cfg["shape"]

    def leaf(k):
        x = Method(name=f"X{k}")
        xr = self.sig(f"xr{k}")

        @def_method(m, x, ready=xr)
        def _():
            pass
        return x

    def trans(k, callee=None, **kw):
        t = Transaction(name=f"S{k}")
        rdy = self.sig(f"rdy{k}")
        with t.body(m, ready=rdy):
            r = callee(m, **kw) if callee is not None else None
        self.obs.append((f"run{k}", t.run))
        return t, r

    if shape in ("tt3", "alt"):
        ts = [trans(k, leaf(k))[0] for k in range(3)]
        if shape == "alt":
            ts[0].simultaneous_alternatives(ts[1], ts[2])
        elif cfg.get("star"):
            ts[0].simultaneous(ts[1], ts[2])
        else:
            ts[0].simultaneous(ts[1])
            ts[1].simultaneous(ts[2])
    elif shape == "mm":
        ys = [Method(i=[("d", 1)], o=[("r", 1)], name=f"Y{k}") for k in range(2)]
        a = [Sig(name=f"a{k}") for k in range(2)]
        for k in range(2):
            yr = self.sig(f"yr{k}")

            def define(k, yr):
                @def_method(m, ys[k], ready=yr)
                def _(d):
                    m.d.top_comb += a[k].eq(d)
                    return {"r": a[1 - k]}
            define(k, yr)
            self.obs.append((f"Y{k}.run", ys[k].run))
        for k in range(1 + cfg["callers"]):
            arg = self.sig(f"arg{k}")
            res = Sig(name=f"res{k}")
            t = Transaction(name=f"S{k}")
            rdy = self.sig(f"rdy{k}")
            with t.body(m, ready=rdy):
                m.d.top_comb += res.eq(ys[min(k, 1)](m, d=arg).r)
            self.obs += [(f"run{k}", t.run), (f"res{k}", res)]
        ys[0].simultaneous(ys[1])
    else:
        y = Method(name="Y")
        yr = self.sig("yr0")

        @def_method(m, y, ready=yr)
        def _():
            pass
        self.obs.append(("Y0.run", y.run))
        t0, _ = trans(0, leaf(0))
        for k in range(1, 1 + cfg["callers"]):
            trans(k, y)
        t0.simultaneous(y)


ConnDesign.elab_simg = _elab_simg


class ConnH(CondH):
    def make(self):
        self.d = ConnDesign(self.cfg)
        return self.d, [], [], []

    def build(self, comb_check=True):
        from vlib import tsx
        from amaranth.hdl import Fragment
        import warnings
        if comb_check:
            top, _, _, _, ctx = self._construct()
            try:
                tsx.check_comb_cycles(top)
            finally:
                ctx.__exit__(None, None, None)
        top, ports, _, _, ctx = self._construct()
        try:
            with warnings.catch_warnings():
                warnings.simplefilter("ignore")
                frag = Fragment.get(top, None)
            self.ports, self.port = [], {}
            self.input_names = [n for n, _ in self.d.inputs]
            self.obs_names = [n for n, _ in self.d.obs]
            self.n_inputs = len(self.d.inputs)
            self.drv = tsx.Driver(frag, self.d.inputs, self.d.obs)
        finally:
            ctx.__exit__(None, None, None)
        return self.drv

    def step(self, ref, inp, obs):
        I = dict(zip(self.input_names, inp))
        O = dict(zip(self.obs_names, obs))
        cfg = self.cfg
        V = []
        if cfg["kind"] == "sim":
            if O["run0"] != O["run1"]:
                V.append(f"simultaneous.together: S0.run={O['run0']} S1.run={O['run1']}")
            for k in range(2):
                if O[f"run{k}"] and not (I[f"rdy{k}"] and I[f"xr{k}"]):
                    V.append(f"simultaneous.enabled: S{k} runs while it or its callee is not ready")
            if O["run0"]:
                self.count("nt_pair_runs")
            elif I["rdy0"] != I["rdy1"] or I["xr0"] != I["xr1"]:
                self.count("nt_one_side_blocked")
            if cfg.get("third") and O["run2"] and O["run0"]:
                V.append("simultaneous.conflict: S2 shares X0 with S0 but both run")
            return V, ()
        if cfg["kind"] == "dead":
            d = self.d
            for i in range(d.nconn):
                if O[f"c{i}.read.run"] != O[f"c{i}.write.run"]:
                    V.append(f"connect.together: connect {i}: read.run={O[f'c{i}.read.run']} write.run={O[f'c{i}.write.run']}")
                wr = [k for k, (_, writes, _) in enumerate(d.plan) if i in writes and O[f"run{k}"]]
                rd = [k for k, (_, _, reads) in enumerate(d.plan) if reads == i and O[f"run{k}"]]
                if len(wr) != O[f"c{i}.write.run"] or len(rd) != O[f"c{i}.read.run"]:
                    V.append(f"connect.run: connect {i}: write.run={O[f'c{i}.write.run']} with writers {wr}, "
                             f"read.run={O[f'c{i}.read.run']} with readers {rd}")
            for k in range(len(d.plan)):
                if O[f"run{k}"] and not I[f"rdy{k}"]:
                    V.append(f"caller.enabled: {d.plan[k][0]} runs while not ready")
            if cfg.get("nested"):
                if O["nested.run"] and not (O["run0"] and I["nrdy"]):
                    V.append(f"nested.without_parent: the transaction nested in {d.plan[0][0]} runs (its callee run={O['XN.run']}) "
                             f"while {d.plan[0][0]}.run={O['run0']}")
                if O["XN.run"] != O["nested.run"]:
                    V.append(f"nested.callee: XN.run={O['XN.run']} nested.run={O['nested.run']}")
            if any(O[f"run{k}"] for k in range(len(d.plan))):
                self.count("nt_pair_runs")
            elif any(I[f"rdy{k}"] for k in range(len(d.plan))):
                self.count("nt_one_side_blocked")
            return V, ()
        if cfg["kind"] == "simg":
            shape = cfg["shape"]
            if shape in ("tt3", "alt"):
                en = [I[f"rdy{k}"] and I[f"xr{k}"] for k in range(3)]
                r = [O[f"run{k}"] for k in range(3)]
                for k in range(3):
                    if r[k] and not en[k]:
                        V.append(f"simultaneous.enabled: S{k} runs while it or its callee is not ready")
                if shape == "tt3":
                    if len(set(r)) != 1:
                        V.append(f"simultaneous.together: group of three runs as {r}")
                    self.count("nt_pair_runs" if r[0] else ("nt_one_side_blocked" if any(en) else "idle"))
                else:
                    if r[1] and r[2]:
                        V.append("simultaneous.alternatives: both alternatives run in one cycle")
                    if r[0] != (r[1] or r[2]):
                        V.append(f"simultaneous.together: S0.run={r[0]} alternatives run {r[1:]}")
                    self.count("nt_pair_runs" if r[0] else ("nt_one_side_blocked" if any(en) else "idle"))
                    if en[1] and en[2] and en[0]:
                        self.count("nt_arbitration")
                return V, ()
            nc = cfg["callers"]
            if shape == "mm":
                callers0, callers1 = [0], list(range(1, 1 + nc))
                y0, y1 = O["Y0.run"], O["Y1.run"]
                if y0 != y1:
                    V.append(f"simultaneous.together: Y0.run={y0} Y1.run={y1}")
            else:
                callers0, callers1 = [], list(range(1, 1 + nc))
                y0, y1 = O["run0"], O["Y0.run"]
                if y0 != y1:
                    V.append(f"simultaneous.together: S0.run={y0} Y.run={y1}")
                if y0 and not (I["rdy0"] and I["xr0"]):
                    V.append("simultaneous.enabled: S0 runs while it or its callee is not ready")
            run1 = [k for k in callers1 if O[f"run{k}"]]
            if len(run1) != y1:
                V.append(f"method.run: second method runs={y1} with callers running {run1}")
            if shape == "mm" and O["run0"] != y0:
                V.append(f"method.run: Y0.run={y0} but its caller S0.run={O['run0']}")
            for k in ([0] if shape == "mm" else []) + run1:
                yr = I["yr0"] if (k == 0 or shape == "tm") else I["yr1"]
                if O[f"run{k}"] and not (I[f"rdy{k}"] and yr):
                    V.append(f"caller.enabled: S{k} runs while it or its method is not ready")
            if shape == "mm" and not V and y0 and len(run1) == 1:
                k = run1[0]
                if O[f"res{k}"] != I["arg0"]:
                    V.append(f"simultaneous.data: caller S{k} of Y1 got {O[f'res{k}']}, S0 passed {I['arg0']} into Y0")
                if O["res0"] != I[f"arg{k}"]:
                    V.append(f"simultaneous.rev_data: caller S0 of Y0 got {O['res0']}, S{k} passed {I[f'arg{k}']} into Y1")
            if y0 and y1:
                self.count("nt_pair_runs")
            elif any(I[n] for n in self.input_names if n.startswith("rdy")):
                self.count("nt_one_side_blocked")
            if nc == 2 and I["rdy1"] and I["rdy2"]:
                self.count("nt_arbitration")
            return V, ()
        if cfg["kind"] == "chain":
            n = cfg["n"]
            for i in range(n):
                if O[f"c{i}.read.run"] != O[f"c{i}.write.run"]:
                    V.append(f"connect.together: connect {i} of the chain: read.run={O[f'c{i}.read.run']} "
                             f"write.run={O[f'c{i}.write.run']}")
                if O[f"c{i}.write.run"] != O[f"run{i}"] or O[f"c{i}.read.run"] != O[f"run{i + 1}"]:
                    V.append(f"connect.run: connect {i}: write.run={O[f'c{i}.write.run']} stage{i}.run={O[f'run{i}']} "
                             f"read.run={O[f'c{i}.read.run']} stage{i + 1}.run={O[f'run{i + 1}']}")
            allr = all(I[f"rdy{k}"] for k in range(n + 1)) and (I["zr"] or not cfg.get("zmask", 0))
            for k in range(n + 1):
                if O[f"run{k}"] and not allr:
                    V.append(f"caller.enabled: stage {k} runs although not every stage of the chain (and Z) is ready")
            if not V and O["run0"] and O["res"] != I["arg0"]:
                V.append(f"connect.data: last stage got {O['res']}, first stage passed {I['arg0']}")
            if O["run0"]:
                self.count("nt_pair_runs")
            elif any(I[f"rdy{k}"] for k in range(n + 1)):
                self.count("nt_one_side_blocked")
            if sum(I[f"rdy{k}"] for k in range(n + 1)) >= n:
                self.count("nt_arbitration")
            return V, ()
        nw, nr, rev = cfg["nw"], cfg["nr"], cfg.get("rev", True)
        if O["read.run"] != O["write.run"]:
            V.append(f"connect.together: read.run={O['read.run']} write.run={O['write.run']}")
        wr = [k for k in range(nw) if O[f"run{k}"]]
        rd = [k for k in range(nw, nw + nr) if O[f"run{k}"]]
        if len(wr) > 1 or len(rd) > 1:
            V.append(f"connect.exclusive: writers running {wr}, readers running {rd}")
        if bool(wr) != bool(O["write.run"]) or bool(rd) != bool(O["read.run"]):
            V.append(f"connect.run: write.run={O['write.run']} with writers {wr}; read.run={O['read.run']} with readers {rd}")
        for k in wr + rd:
            if not I[f"rdy{k}"] or ((cfg.get("extra", 0) >> k) & 1 and not I[f"xr{k}"]):
                V.append(f"caller.enabled: caller {k} runs while it or its extra callee is not ready")
        if len(wr) == 1 and len(rd) == 1:
            w, r = wr[0], rd[0]
            if O[f"res{r}"] != I[f"arg{w}"]:
                V.append(f"connect.data: reader {r} got {O[f'res{r}']}, writer {w} passed {I[f'arg{w}']}")
            if rev and O[f"res{w}"] != I[f"arg{r}"]:
                V.append(f"connect.rev_data: writer {w} got {O[f'res{w}']}, reader {r} passed {I[f'arg{r}']}")
            self.count("nt_pair_runs")
        can_w = [k for k in range(nw) if I[f"rdy{k}"] and (not (cfg.get("extra", 0) >> k) & 1 or I[f"xr{k}"])]
        can_r = [k for k in range(nw, nw + nr) if I[f"rdy{k}"] and (not (cfg.get("extra", 0) >> k) & 1 or I[f"xr{k}"])]
        if bool(can_w) != bool(can_r):
            self.count("nt_one_side_blocked")
        if len(can_w) > 1 or len(can_r) > 1:
            self.count("nt_arbitration")
        return V, ()


def jobs(tier):
    js = []
    mx = 2 if tier == "quick" else 3
    for nw in range(1, mx + 1):
        for nr in range(1, mx + 1):
            n = nw + nr
            if n > (4 if tier == "quick" else 5):
                continue
            for extra in range(1 << n):
                if tier == "quick" and bin(extra).count("1") > 2:
                    continue
                for rev in (True, False):
                    js.append(E1("checks.c13", "ConnH", {"kind": "connect", "nw": nw, "nr": nr, "extra": extra, "rev": rev},
                                 replay_cap=2))
    # chains of Connects (transitive simultaneity groups of 2-4 (5) transactions), stages optionally sharing a method
    for n in range(1, 4 if tier == "quick" else 5):
        for zmask in range(1 << (n + 1)):
            shared = bin(zmask).count("1")
            for znx in (True, False):
                if not znx and shared > 1:
                    continue        # an exclusive method called by two stages that must run together: ill-formed
                if znx and shared == 0:
                    continue
                if zmask & (zmask >> 1):
                    continue        # two directly simultaneous stages sharing Z: the library rejects the design
                                    # ("unsatisfiable simultaneity"); a rejected design cannot violate C13
                js.append(E1("checks.c13", "ConnH", {"kind": "chain", "n": n, "zmask": zmask, "znx": znx}, replay_cap=2))
    js.append(E1("checks.c13", "ConnH", {"kind": "sim"}, replay_cap=2))
    js.append(E1("checks.c13", "ConnH", {"kind": "sim", "third": True}, replay_cap=2))
    # Connect halves nobody calls (everything simultaneous with them is dead), next to live pairs
    for rev in (False, True):
        js.append(E1("checks.c13", "ConnH", {"kind": "dead", "shape": "mixed", "rev": rev}, replay_cap=2))
        for n in (1, 2, 3):
            js.append(E1("checks.c13", "ConnH", {"kind": "dead", "shape": "open", "n": n, "rev": rev}, replay_cap=2))
    # user-declared simultaneity: groups of three, alternatives, two data-exchanging methods, transaction + method
    js.append(E1("checks.c13", "ConnH", {"kind": "simg", "shape": "tt3"}, replay_cap=2))
    js.append(E1("checks.c13", "ConnH", {"kind": "simg", "shape": "tt3", "star": True}, replay_cap=2))
    js.append(E1("checks.c13", "ConnH", {"kind": "simg", "shape": "alt"}, replay_cap=2))
    for callers in (1, 2):
        js.append(E1("checks.c13", "ConnH", {"kind": "simg", "shape": "mm", "callers": callers}, replay_cap=2))
        js.append(E1("checks.c13", "ConnH", {"kind": "simg", "shape": "tm", "callers": callers}, replay_cap=2))
    return js


def run(rep, tier):
    rep.rule = ("every design connecting 1-2 (3 thorough) writer and reader transactions through Connect (1-bit forward and optional "
                "1-bit reverse data), each caller optionally calling an own extra method with free readiness, plus two bare "
                "simultaneous() transactions, x all input valuations: read.run == write.run, at most one writer and one reader run, "
                "forward and reverse data of the running pair match the arguments; non-trivial = valuations where a pair runs, "
                "where only one side could run, where several callers compete")
    rep.assumptions = ["pysim semantics", "1-bit payloads"]
    rep.add_e1(run_jobs(jobs(tier), chunksize=4))
    rep.per_config = rep.per_config[:30] + rep.per_config[-10:]
    return {"states": 50, "transitions": 5000, "nt_pair_runs": 1000, "nt_one_side_blocked": 1000, "nt_arbitration": 500}
