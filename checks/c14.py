"""C14 -- FIFO and BasicFifo behave as bounded queues."""
from vlib.ports import MethodHarness, opts
from vlib.runner import E1

PROP = "C14"
RULE = ("BFS over all reachable (register+memory state, deque model) pairs of FIFO/BasicFifo behind one AdapterTrans per "
        "method; every valuation of (en, payload) of every method in every state; non-trivial = transitions where "
        "two or more methods ran in the same cycle, where a call was refused (en & !done), or a wrap-around happened")
ASSUME = ["amaranth pysim is the semantics of the elaborated circuit", "data width <= 2 bits (data independence)",
          "one caller per method"]


class BasicFifoH(MethodHarness):
    def make(self):
        from transactron.lib import BasicFifo
        c = self.cfg
        layout = [("data", c["width"])] if not c.get("two_fields") else [("a", 1), ("b", c["width"])]
        f = BasicFifo(layout, c["depth"])
        return f, [("read", "t", f.read), ("peek", "t", f.peek), ("write", "t", f.write), ("clear", "t", f.clear)]

    def init(self):
        return ()

    def alphabet(self, ref):
        if not hasattr(self, "_alpha"):
            w = self.port["write"].in_width
            red = self.cfg.get("reduced", True)
            self._alpha = self.product({"read": opts(0), "peek": opts(0), "write": opts(w, reduced=red), "clear": opts(0)})
        return self._alpha

    def step(self, q, inp, obs):
        c = self.calls(inp, obs)
        depth = self.cfg["depth"]
        v = []
        rd, pk, wr, cl = c["read"], c["peek"], c["write"], c["clear"]
        if rd.done != (rd.en and len(q) > 0):
            v.append(f"read.ready: done={rd.done} en={rd.en} level={len(q)}")
        if pk.done != (pk.en and len(q) > 0):
            v.append(f"peek.ready: done={pk.done} en={pk.en} level={len(q)}")
        if wr.done != (wr.en and len(q) < depth):
            v.append(f"write.ready: done={wr.done} en={wr.en} level={len(q)}")
        if cl.done != cl.en:
            v.append(f"clear.ready: done={cl.done} en={cl.en}")
        if v:
            return v, q
        if rd.done and rd.out != q[0]:
            v.append(f"read.data: got {rd.out} expected {q[0]}")
        if pk.done and pk.out != q[0]:
            v.append(f"peek.data: got {pk.out} expected {q[0]}")
        if v:
            return v, q
        n = rd.done + pk.done + wr.done + cl.done
        if n >= 2:
            self.count("nt_simultaneous")
        if (rd.en and not rd.done) or (wr.en and not wr.done):
            self.count("nt_refused")
        if wr.done and cl.done:
            self.count("nt_write_and_clear")
        nq = q
        if rd.done:
            nq = nq[1:]
        if wr.done:
            nq = nq + (wr.data,)
        if cl.done:
            nq = ()
        return v, nq


class FifoH(MethodHarness):
    def make(self):
        from transactron.lib import FIFO
        c = self.cfg
        f = FIFO([("data", c["width"])], c["depth"])
        return f, [("read", "t", f.read), ("write", "t", f.write)]

    def alphabet(self, ref):
        if not hasattr(self, "_alpha"):
            w = self.port["write"].in_width
            self._alpha = self.product({"read": opts(0), "write": opts(w, reduced=self.cfg.get("reduced", True))})
        return self._alpha

    def step(self, q, inp, obs):
        c = self.calls(inp, obs)
        depth = self.cfg["depth"]
        rd, wr = c["read"], c["write"]
        v = []
        if rd.done != (rd.en and len(q) > 0):
            v.append(f"read.ready: done={rd.done} en={rd.en} level={len(q)}")
        if wr.done != (wr.en and len(q) < depth):
            v.append(f"write.ready: done={wr.done} en={wr.en} level={len(q)}")
        if rd.done and rd.out != q[0]:
            v.append(f"read.data: got {rd.out} expected {q[0]}")
        if v:
            return v, q
        if rd.done and wr.done:
            self.count("nt_simultaneous")
        if (rd.en and not rd.done) or (wr.en and not wr.done):
            self.count("nt_refused")
        nq = q
        if rd.done:
            nq = nq[1:]
        if wr.done:
            nq = nq + (wr.data,)
        return v, nq


def jobs(tier):
    js = []
    if tier == "quick":
        grid = [(d, w) for d in (1, 2, 3) for w in (1, 2)]
        for d, w in grid:
            js.append(E1("checks.c14", "BasicFifoH", {"depth": d, "width": w}))
            js.append(E1("checks.c14", "FifoH", {"depth": d, "width": w}))
        js.append(E1("checks.c14", "BasicFifoH", {"depth": 4, "width": 1}))
    else:
        for d in (1, 2, 3, 4, 5):
            for w in (1, 2):
                if d == 5 and w == 2:
                    continue
                js.append(E1("checks.c14", "BasicFifoH", {"depth": d, "width": w, "reduced": d * w <= 6}))
                js.append(E1("checks.c14", "FifoH", {"depth": d, "width": w, "reduced": False}))
        js.append(E1("checks.c14", "BasicFifoH", {"depth": 3, "width": 1, "two_fields": True, "reduced": False}))
        js.append(E1("checks.c14", "BasicFifoH", {"depth": 6, "width": 1}))
        js.append(E1("checks.c14", "BasicFifoH", {"depth": 7, "width": 1}))
    return js


def run(rep, tier):
    from vlib.runner import run_jobs
    rep.rule = RULE
    rep.assumptions = ASSUME
    rep.add_e1(run_jobs(jobs(tier)))
    return {"states": 500, "transitions": 5000, "replayed": 10, "nt_simultaneous": 100, "nt_refused": 100,
            "nt_write_and_clear": 10}
