"""C15 -- WideFifo behaves as a bounded queue with batched operations."""
from vlib.ports import MethodHarness, pack
from vlib.runner import E1, run_jobs

PROP = "C15"


class WideFifoH(MethodHarness):
    def make(self):
        from transactron.lib.fifo import WideFifo
        c = self.cfg
        f = WideFifo(c.get("width", 1), c["depth"], c["rw"], c["ww"], write_max_count=c.get("maxc", False))
        return f, [("read", "t", f.read), ("peek", "t", f.peek), ("write", "t", f.write), ("clear", "t", f.clear)]

    def alphabet(self, ref):
        if not hasattr(self, "_alpha"):
            c = self.cfg
            w = c.get("width", 1)
            wl = self.port["write"].in_layout
            wopts = [(0, 0)]
            for cnt in range(c["ww"] + 1):
                nd = c["ww"] if not c.get("reduced", True) else cnt
                for bits in range(1 << (w * nd)):
                    d = [(bits >> (w * i)) & ((1 << w) - 1) for i in range(c["ww"])]
                    if c.get("maxc", False):
                        for mc in range(cnt, c["ww"] + 1):   # documented precondition count <= max_count
                            wopts.append((1, pack(wl, {"count": cnt, "data": d, "max_count": mc})))
                    else:
                        wopts.append((1, pack(wl, {"count": cnt, "data": d})))
            # every encodable read count, including values above read_width (the result is min(count, level, read_width))
            ropts = [(0, 0)] + [(1, k) for k in range(1 << (c["rw"]).bit_length())]
            self._alpha = self.product({"read": ropts, "peek": [(0, 0), (1, 0)], "write": wopts, "clear": [(0, 0), (1, 0)]})
        return self._alpha

    def step(self, q, inp, obs):
        cfg = self.cfg
        depth, rw = cfg["depth"], cfg["rw"]
        c = self.calls(inp, obs)
        rd, pk, wr, cl = c["read"], c["peek"], c["write"], c["clear"]
        level = len(q)
        remaining = depth - level
        v = []
        if rd.done != (rd.en and level != 0):
            v.append(f"read.ready: done={rd.done} en={rd.en} level={level}")
        if pk.done != (pk.en and level != 0):
            v.append(f"peek.ready: done={pk.done} en={pk.en} level={level}")
        wa = self.port["write"].arg(wr.data)
        need = wa["max_count"] if cfg.get("maxc", False) else wa["count"]
        if wr.done and wa["count"] > remaining:
            v.append(f"write.overflow: accepted count={wa['count']} remaining={remaining}")
        elif wr.done != (wr.en and remaining != 0 and need <= remaining):
            v.append(f"write.ready: done={wr.done} en={wr.en} count={wa['count']} need={need} remaining={remaining}")
        if cl.done != cl.en:
            v.append("clear.ready: always ready")
        k = 0
        if rd.done:
            r = self.port["read"].ret(rd.out)
            k = min(rd.data, level, rw)
            if r["count"] != k:
                v.append(f"read.count: {r['count']} expected {k} (asked {rd.data}, level {level})")
            elif tuple(r["data"][:k]) != q[:k]:
                v.append(f"read.data: {r['data'][:k]} expected {list(q[:k])}")
        if pk.done:
            r = self.port["peek"].ret(pk.out)
            kk = min(level, rw)
            if r["count"] != kk:
                v.append(f"peek.count: {r['count']} expected {kk}")
            elif tuple(r["data"][:kk]) != q[:kk]:
                v.append(f"peek.data: {r['data'][:kk]} expected {list(q[:kk])}")
        if v:
            return v, q
        if rd.done and wr.done:
            self.count("nt_read_and_write")
        if rd.done and k < rd.data:
            self.count("nt_short_read")
        if wr.en and not wr.done and remaining != 0:
            self.count("nt_write_rejected_by_validation")
        if cl.done and (rd.done or wr.done):
            self.count("nt_clear_with_other")
        nq = q[k:]
        if wr.done:
            nq = nq + tuple(wa["data"][: wa["count"]])
        if cl.done:
            nq = ()
        return v, nq


def jobs(tier):
    small, big = [], []
    if tier == "quick":
        for d, r, w in [(2, 1, 2), (2, 2, 1), (3, 3, 1), (3, 1, 3)]:
            for mc in (False, True):
                small.append(E1("checks.c15", "WideFifoH", {"depth": d, "rw": r, "ww": w, "maxc": mc}))
        for mc in (False, True):
            big.append(E1("checks.c15", "WideFifoH", {"depth": 4, "rw": 2, "ww": 2, "maxc": mc}))
    else:
        grid = [(2, 1, 2), (2, 2, 1), (2, 2, 2), (4, 2, 2), (3, 3, 1), (3, 1, 3), (4, 2, 4), (4, 4, 2), (6, 3, 2), (6, 2, 3),
                (6, 3, 3), (4, 1, 1), (8, 4, 4), (8, 2, 4)]
        for d, r, w in grid:
            for mc in (False, True):
                caps = {"max_states": 6000} if d >= 8 else {}     # depth 8: bounded (reported as not exhaustive)
                j = E1("checks.c15", "WideFifoH", {"depth": d, "rw": r, "ww": w, "maxc": mc, "reduced": d * max(r, w) > 16}, **caps)
                (big if d >= 4 else small).append(j)
        big.append(E1("checks.c15", "WideFifoH", {"depth": 4, "rw": 2, "ww": 2, "width": 2}))
        small.append(E1("checks.c15", "WideFifoH", {"depth": 2, "rw": 1, "ww": 2, "width": 2, "reduced": False}))
    return small, big


def run(rep, tier):
    from vlib.runner import run_big
    rep.rule = ("complete BFS of WideFifo behind four AdapterTrans against a deque model; read counts over every encodable value of the count field (also above read_width), "
                "write (count, data[, max_count>=count]) over all values (reduced alphabet: data lanes beyond count are 0); "
                "non-trivial = read+write in one cycle, short reads (count > available), writes refused by the fits-check, "
                "clear with another call")
    rep.assumptions = ["pysim semantics", "1-bit elements (2-bit in two thorough configurations)",
                       "count <= max_count (documented precondition)", "write count inside the declared range 0..write_width"]
    small, big = jobs(tier)
    rep.add_e1(run_jobs(small))
    rep.add_e1(run_big(big))
    return {"states": 300, "transitions": 20000, "replayed": 50, "nt_read_and_write": 500, "nt_short_read": 500,
            "nt_write_rejected_by_validation": 100, "nt_clear_with_other": 500}
