"""C16 -- Stack behaves as a bounded LIFO."""
from vlib.ports import MethodHarness, opts
from vlib.runner import E1, run_jobs

PROP = "C16"


class StackH(MethodHarness):
    def make(self):
        from transactron.lib.stack import Stack
        c = self.cfg
        s = Stack([("data", c["width"])], c["depth"])
        return s, [("read", "t", s.read), ("peek", "t", s.peek), ("write", "t", s.write), ("clear", "t", s.clear)]

    def alphabet(self, ref):
        if not hasattr(self, "_alpha"):
            w = self.port["write"].in_width
            self._alpha = self.product({"read": opts(0), "peek": opts(0),
                                        "write": opts(w, reduced=self.cfg.get("reduced", True)), "clear": opts(0)})
        return self._alpha

    def step(self, st, inp, obs):
        c = self.calls(inp, obs)
        depth = self.cfg["depth"]
        rd, pk, wr, cl = c["read"], c["peek"], c["write"], c["clear"]
        v = []
        if rd.done != (rd.en and len(st) > 0):
            v.append(f"read.ready: done={rd.done} en={rd.en} level={len(st)}")
        if pk.done != (pk.en and len(st) > 0):
            v.append(f"peek.ready: done={pk.done} en={pk.en} level={len(st)}")
        if wr.done != (wr.en and len(st) < depth):
            v.append(f"write.ready: done={wr.done} en={wr.en} level={len(st)}")
        if cl.done != cl.en:
            v.append(f"clear.ready: done={cl.done}")
        if rd.done and rd.out != st[-1]:
            v.append(f"read.data: got {rd.out} expected {st[-1]}")
        if pk.done and pk.out != st[-1]:
            v.append(f"peek.data: got {pk.out} expected {st[-1]}")
        if v:
            return v, st
        if rd.done and wr.done:
            self.count("nt_read_and_write")
        if cl.done and (wr.done or rd.done):
            self.count("nt_clear_with_other")
        if (rd.en and not rd.done) or (wr.en and not wr.done):
            self.count("nt_refused")
        ns = st
        if rd.done:
            ns = ns[:-1]
        if wr.done:
            ns = ns + (wr.data,)
        if cl.done:
            ns = ()
        return v, ns


def jobs(tier):
    if tier == "quick":
        grid = [(d, 1) for d in (1, 2, 3, 4, 5)] + [(d, 2) for d in (1, 2, 3)]
        return [E1("checks.c16", "StackH", {"depth": d, "width": w}) for d, w in grid]
    grid = [(d, 1, False) for d in (1, 2, 3, 4, 5, 6, 7, 8)] + [(d, 2, d > 3) for d in (1, 2, 3, 4, 5)]
    return [E1("checks.c16", "StackH", {"depth": d, "width": w, "reduced": r}) for d, w, r in grid]


def run(rep, tier):
    rep.rule = ("complete BFS of Stack behind four AdapterTrans against a list model; every (en,payload) valuation in every "
                "reachable state; non-trivial = read and write in one cycle, clear together with read/write, refused calls")
    rep.assumptions = ["pysim semantics", "data width <= 2", "one caller per method"]
    rep.add_e1(run_jobs(jobs(tier)))
    return {"states": 300, "transitions": 5000, "replayed": 10, "nt_read_and_write": 100, "nt_clear_with_other": 100,
            "nt_refused": 100}
