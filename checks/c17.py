"""C17 -- Forwarder and Pipe are lossless one-slot buffers."""
from vlib.ports import MethodHarness, opts
from vlib.runner import E1, run_jobs

PROP = "C17"


class _Slot(MethodHarness):
    cls = None

    def make(self):
        from transactron.lib import connectors
        c = self.cfg
        layout = [("data", c["width"])] if not c.get("two_fields") else [("a", 1), ("b", c["width"])]
        s = getattr(connectors, self.cls)(layout)
        return s, [("read", "t", s.read), ("peek", "t", s.peek), ("write", "t", s.write), ("clear", "t", s.clear)]

    def init(self):
        return None  # empty slot

    def alphabet(self, ref):
        if not hasattr(self, "_alpha"):
            w = self.port["write"].in_width
            self._alpha = self.product({"read": opts(0), "peek": opts(0),
                                        "write": opts(w, reduced=self.cfg.get("reduced", False)), "clear": opts(0)})
        return self._alpha


class ForwarderH(_Slot):
    cls = "Forwarder"

    def step(self, slot, inp, obs):
        c = self.calls(inp, obs)
        rd, pk, wr, cl = c["read"], c["peek"], c["write"], c["clear"]
        full = slot is not None
        v = []
        if wr.done != (wr.en and not full):
            v.append(f"write.ready: done={wr.done} en={wr.en} full={full}")
        rready = full or wr.done
        if rd.done != (rd.en and rready):
            v.append(f"read.ready: done={rd.done} en={rd.en} full={full} write_runs={wr.done}")
        if pk.done != (pk.en and rready):
            v.append(f"peek.ready: done={pk.done} en={pk.en} full={full} write_runs={wr.done}")
        if cl.done != cl.en:
            v.append("clear.ready: clear is always ready")
        cur = slot if full else (wr.data if wr.done else None)
        if rd.done and rd.out != cur:
            v.append(f"read.data: got {rd.out} expected {cur}")
        if pk.done and pk.out != cur:
            v.append(f"peek.data: got {pk.out} expected {cur}")
        if v:
            return v, slot
        if wr.done and rd.done:
            self.count("nt_forwarded")
        if wr.done and cl.done:
            self.count("nt_write_and_clear")
        if pk.done and not rd.done:
            self.count("nt_peek_only")
        ns = slot
        if wr.done and not rd.done:
            ns = wr.data
        if rd.done:
            ns = None
        if cl.done:
            ns = None
        return v, ns


class PipeH(_Slot):
    cls = "Pipe"

    def step(self, slot, inp, obs):
        c = self.calls(inp, obs)
        rd, pk, wr, cl = c["read"], c["peek"], c["write"], c["clear"]
        full = slot is not None
        v = []
        if rd.done != (rd.en and full):
            v.append(f"read.ready: done={rd.done} en={rd.en} full={full}")
        if pk.done != (pk.en and full):
            v.append(f"peek.ready: done={pk.done} en={pk.en} full={full}")
        if wr.done != (wr.en and (not full or rd.done)):
            v.append(f"write.ready: done={wr.done} en={wr.en} full={full} read_runs={rd.done}")
        if cl.done != cl.en:
            v.append("clear.ready: clear is always ready")
        if rd.done and rd.out != slot:
            v.append(f"read.data: got {rd.out} expected {slot}")
        if pk.done and pk.out != slot:
            v.append(f"peek.data: got {pk.out} expected {slot}")
        if v:
            return v, slot
        if wr.done and rd.done:
            self.count("nt_forwarded")
        if wr.done and cl.done:
            self.count("nt_write_and_clear")
        if pk.done and not rd.done:
            self.count("nt_peek_only")
        ns = slot
        if rd.done:
            ns = None
        if wr.done:
            ns = wr.data
        if cl.done:
            ns = None
        return v, ns


def jobs(tier):
    js = []
    for cls in ("ForwarderH", "PipeH"):
        for w in (1, 2):
            js.append(E1("checks.c17", cls, {"width": w}))
        if tier == "thorough":
            js.append(E1("checks.c17", cls, {"width": 3}))
            js.append(E1("checks.c17", cls, {"width": 2, "two_fields": True}))
    return js


def run(rep, tier):
    rep.rule = ("complete BFS of Forwarder and Pipe behind four AdapterTrans against an optional-slot model, full input "
                "alphabet (payload toggles also while write.en=0); non-trivial = same-cycle write+read (forwarding / "
                "pipe refill), write+clear, peek without read")
    rep.assumptions = ["pysim semantics", "data width <= 3", "one caller per method"]
    rep.add_e1(run_jobs(jobs(tier)))
    return {"states": 20, "transitions": 500, "replayed": 4, "nt_forwarded": 20, "nt_write_and_clear": 20, "nt_peek_only": 20}
