"""C18 -- method transformers and connectors implement their documented function.

Every produced method is called by one (or two) real AdapterTrans, every target is a real Adapter whose `en` pin is the
target's readiness and whose `data_in` pins are the value it returns; all valuations (x all Forwarder states for Collector)."""
import itertools

from vlib.ports import MethodHarness, opts
from vlib.runner import E1, run_jobs

PROP = "C18"


class _H(MethodHarness):
    reduced = False

    def alphabet(self, ref):
        if not hasattr(self, "_alpha"):
            self._alpha = self.product({p.name: opts(p.in_width, reduced=self.cfg.get("reduced", self.reduced))
                                        for p in self.ports})
        return self._alpha


class ConnectTransH(_H):
    def make(self):
        from transactron.lib.connectors import ConnectTrans
        w = self.cfg["w"]
        ct = ConnectTrans([("x", w)], [("y", w)])
        return ct, [("m1", "a", ct.method1), ("m2", "a", ct.method2)]

    def step(self, ref, inp, obs):
        c = self.calls(inp, obs)
        a, b = c["m1"], c["m2"]
        both = a.en & b.en
        v = []
        if a.done != both or b.done != both:
            v.append(f"transfer_iff_both_ready: m1.ready={a.en} m2.ready={b.en} m1.run={a.done} m2.run={b.done}")
        elif both:
            if a.out != b.data:
                v.append(f"data.m2_to_m1: method1 received {a.out}, method2 returned {b.data}")
            if b.out != a.data:
                v.append(f"data.m1_to_m2: method2 received {b.out}, method1 returned {a.data}")
            self.count("nt_transfer")
        return v, ref


class ConnectTransValH(_H):
    """ConnectTrans between a source and a method with validate_arguments (rejects 0) that forwards to a sink: the transfer
    happens exactly when both ends are ready and the value is accepted."""

    def make(self):
        from amaranth import Elaboratable
        from transactron import Method, TModule, def_method
        from transactron.lib.connectors import ConnectTrans, CrossbarConnectTrans
        w, xbar = self.cfg["w"], self.cfg.get("crossbar", False)

        class Top(Elaboratable):
            def __init__(self):
                self.src = Method(o=[("y", w)])
                self.sink = Method(i=[("y", w)])

            def elaborate(self, platform):
                m = TModule()
                v = Method(i=[("y", w)])

                @def_method(m, v, validate_arguments=lambda y: y != 0)
                def _(y):
                    self.sink(m, y=y)

                if xbar:
                    m.submodules.ct = CrossbarConnectTrans.create(v, self.src)
                else:
                    m.submodules.ct = ConnectTrans.create(v, self.src)
                return m

        top = Top()
        return top, [("src", "a", top.src), ("sink", "a", top.sink)]

    def step(self, ref, inp, obs):
        c = self.calls(inp, obs)
        s, k = c["src"], c["sink"]
        exp = s.en & k.en & (s.data != 0)
        v = []
        if s.done != exp or k.done != exp:
            v.append(f"transfer_iff_both_ready: src.ready={s.en} value={s.data} sink.ready={k.en} src.run={s.done} sink.run={k.done}")
        elif exp:
            if k.out != s.data:
                v.append(f"data: sink received {k.out}, source returned {s.data}")
            self.count("nt_transfer")
        elif s.en and k.en:
            self.count("nt_rejected_value")
        return v, ref


class CrossbarH(_H):
    def make(self):
        from transactron.lib.connectors import CrossbarConnectTrans
        c = self.cfg
        cb = CrossbarConnectTrans(c["n1"], c["n2"], [("x", c["w"])], [("y", c["w"])])
        return cb, [(f"a{i}", "a", m) for i, m in enumerate(cb.methods1)] + [(f"b{j}", "a", m) for j, m in enumerate(cb.methods2)]

    def step(self, ref, inp, obs):
        c = self.calls(inp, obs)
        n1, n2 = self.cfg["n1"], self.cfg["n2"]
        A = [c[f"a{i}"] for i in range(n1)]
        B = [c[f"b{j}"] for j in range(n2)]
        v = []
        for k, x in enumerate(A + B):
            if x.done and not x.en:
                v.append(f"run_only_when_ready: method {k} ran while not ready")
        da = [i for i in range(n1) if A[i].done]
        db = [j for j in range(n2) if B[j].done]
        if len(da) != len(db):
            v.append(f"pairing: {len(da)} methods ran on side 1 but {len(db)} on side 2")
        elif da:
            ok = False
            for perm in itertools.permutations(db):
                if all(A[i].out == B[j].data and B[j].out == A[i].data for i, j in zip(da, perm)):
                    ok = True
                    break
            if not ok:
                v.append("data: no pairing of the methods that ran explains the exchanged data")
        if any(A[i].en and not A[i].done for i in range(n1)) and any(B[j].en and not B[j].done for j in range(n2)):
            v.append("transfer_when_both_ready: a ready method on each side stayed idle")
        if not v and len(da) >= 2:
            self.count("nt_two_transfers")
        if not v and da and (sum(x.en for x in A) > len(da) or sum(x.en for x in B) > len(db)):
            self.count("nt_contended")
        return v, ref


class MethodMapH(_H):
    def make(self):
        from transactron.lib.transformers import MethodMap
        w, var = self.cfg["w"], self.cfg["variant"]
        kw = {}
        if var in ("both", "in"):
            kw["i_transform"] = ([("x", w)], lambda m, v: {"a": ~v.x})
        if var in ("both", "out"):
            kw["o_transform"] = ([("y", w)], lambda m, v: {"y": v.b + 1})
        mm = MethodMap([("a", w)], [("b", w)], **kw)
        return mm, [("call", "t", mm.method), ("target", "a", mm.target)]

    def step(self, ref, inp, obs):
        c = self.calls(inp, obs)
        call, tgt = c["call"], c["target"]
        M = (1 << self.cfg["w"]) - 1
        var = self.cfg["variant"]
        v = []
        if call.done != (call.en & tgt.en):
            v.append(f"ready: call.done={call.done} en={call.en} target.ready={tgt.en}")
        if tgt.done != call.done:
            v.append(f"target_called_iff_method_runs: target.run={tgt.done} method.run={call.done}")
        if call.done and not v:
            ea = (~call.data & M) if var in ("both", "in") else call.data
            eo = ((tgt.data + 1) & M) if var in ("both", "out") else tgt.data
            if tgt.out != ea:
                v.append(f"input_map: target received {tgt.out}, expected {ea}")
            if call.out != eo:
                v.append(f"output_map: caller received {call.out}, expected {eo}")
            self.count("nt_called")
        return v, ref


class MethodFilterH(_H):
    def make(self):
        from transactron.lib.transformers import MethodFilter
        c = self.cfg
        dflt = {"r": (1 << c["w"]) - 1} if c["custom_default"] else None
        cw = c.get("cw", 1)          # width of the condition value: "non-zero return value is interpreted as true"
        if c.get("create"):
            from transactron import Method
            self.tgt = Method(i=[("c", cw), ("d", c["w"])], o=[("r", c["w"])])
            f = MethodFilter.create(self.tgt, lambda m, arg: arg.c, dflt, use_condition=c["use_condition"])
            return f, [("call", "t", f.method), ("target", "a", self.tgt)]
        f = MethodFilter([("c", cw), ("d", c["w"])], [("r", c["w"])], lambda m, arg: arg.c, dflt,
                         use_condition=c["use_condition"])
        return f, [("call", "t", f.method), ("target", "a", f.target)]

    def step(self, ref, inp, obs):
        c = self.calls(inp, obs)
        call, tgt = c["call"], c["target"]
        cond = 1 if call.data & ((1 << self.cfg.get("cw", 1)) - 1) else 0
        v = []
        rdy = (tgt.en | (1 - cond)) if self.cfg["use_condition"] else tgt.en
        if call.done != (call.en & rdy):
            v.append(f"ready: call.done={call.done} en={call.en} target.ready={tgt.en} condition={cond}")
        if tgt.done != (call.done & cond):
            v.append(f"target_called_iff_condition: target.run={tgt.done} method.run={call.done} condition={cond}")
        if call.done and not v:
            if cond:
                if tgt.out != call.data:
                    v.append(f"argument: target received {tgt.out}, caller passed {call.data}")
                if call.out != tgt.data:
                    v.append(f"result: caller received {call.out}, target returned {tgt.data}")
                self.count("nt_passed")
            else:
                exp = (1 << self.cfg["w"]) - 1 if self.cfg["custom_default"] else 0
                if call.out != exp:
                    v.append(f"default: caller received {call.out}, default is {exp} (target would return {tgt.data})")
                self.count("nt_filtered")
                if not tgt.en:
                    self.count("nt_filtered_while_target_unready")
        return v, ref


class MethodProductH(_H):
    def make(self):
        from transactron.lib.transformers import MethodProduct
        c = self.cfg
        n, w = c["n"], c["w"]
        comb = None
        if c["combiner"]:
            def fn(m, xs):
                acc = 0
                for x in xs:
                    acc = acc ^ x.r
                return {"q": acc}
            comb = ([("q", w)], fn)
        p = MethodProduct([("d", w)], [[("r", w)]] * n, comb)
        return p, [("call", "t", p.method)] + [(f"t{i}", "a", m) for i, m in enumerate(p.targets)]

    def step(self, ref, inp, obs):
        c = self.calls(inp, obs)
        call = c["call"]
        T = [c[f"t{i}"] for i in range(self.cfg["n"])]
        v = []
        allr = int(all(t.en for t in T))
        if call.done != (call.en & allr):
            v.append(f"ready: call.done={call.done} en={call.en} targets ready={[t.en for t in T]}")
        for i, t in enumerate(T):
            if t.done != call.done:
                v.append(f"all_targets_called: target {i} run={t.done} while method run={call.done}")
        if call.done and not v:
            for i, t in enumerate(T):
                if t.out != call.data:
                    v.append(f"argument: target {i} received {t.out}, caller passed {call.data}")
            exp = T[0].data
            if self.cfg["combiner"]:
                exp = 0
                for t in T:
                    exp ^= t.data
            if call.out != exp:
                v.append(f"result: caller received {call.out}, expected {exp}")
            self.count("nt_called")
        if not call.done and call.en and any(t.en for t in T):
            self.count("nt_blocked_by_one_target")
        return v, ref


class MethodTryProductH(_H):
    def make(self):
        from transactron.lib.transformers import MethodTryProduct
        from amaranth import Cat
        c = self.cfg
        n, w = c["n"], c["w"]
        comb = None
        if c["combiner"]:
            def fn(m, xs):
                return {"s": Cat(s for s, _ in xs), "q": Cat(r.r for _, r in xs)}
            comb = ([("s", n), ("q", n * w)], fn)
        p = MethodTryProduct([("d", w)], [[("r", w)]] * n, comb)
        return p, [("call", "t", p.method)] + [(f"t{i}", "a", m) for i, m in enumerate(p.targets)]

    def step(self, ref, inp, obs):
        c = self.calls(inp, obs)
        call = c["call"]
        n, w = self.cfg["n"], self.cfg["w"]
        T = [c[f"t{i}"] for i in range(n)]
        v = []
        if call.done != call.en:
            v.append(f"ready: the try-product must never block (en={call.en} done={call.done} targets ready={[t.en for t in T]})")
        for i, t in enumerate(T):
            if t.done != (call.done & t.en):
                v.append(f"exactly_ready_targets_called: target {i} ready={t.en} run={t.done} method run={call.done}")
        if call.done and not v:
            for i, t in enumerate(T):
                if t.done and t.out != call.data:
                    v.append(f"argument: target {i} received {t.out}, caller passed {call.data}")
            if self.cfg["combiner"]:
                s = call.out & ((1 << n) - 1)
                q = call.out >> n
                exp = sum(t.en << i for i, t in enumerate(T))
                if s != exp:
                    v.append(f"success_bits: reported {s:b}, targets that ran {exp:b}")
                for i, t in enumerate(T):
                    if t.done and (q >> (i * w)) & ((1 << w) - 1) != t.data:
                        v.append(f"result: result {i} is {(q >> (i * w)) & ((1 << w) - 1)}, target returned {t.data}")
            if 0 < sum(t.en for t in T) < n:
                self.count("nt_partial")
            if not any(t.en for t in T):
                self.count("nt_none_ready")
        return v, ref


class MethodTryProductContendH(_H):
    """MethodTryProduct (2 targets, custom combiner reporting the success bits) whose target 0 is also called by another
    transaction X: a target that is ready but granted to X must not be reported as succeeded."""

    def make(self):
        from amaranth import Cat, Elaboratable, Signal
        from transactron import Method, TModule, Transaction
        from transactron.lib.transformers import MethodTryProduct
        first = self.cfg["x_first"]

        class Top(Elaboratable):
            def __init__(self):
                self.t = [Method(i=[("d", 1)], o=[("r", 1)]) for _ in range(2)]
                self.xen = Signal(name="xen")
                self.xrun = Signal(name="xrun")

                def fn(m, xs):
                    return {"s": Cat(s for s, _ in xs), "q": Cat(r.r for _, r in xs)}
                self.p = MethodTryProduct.create(self.t, ([("s", 2), ("q", 2)], fn))
                self.method = self.p.method

            def elaborate(self, platform):
                m = TModule()

                def xtrans():
                    x = Transaction(name="X")
                    with x.body(m, ready=self.xen):
                        self.t[0](m, d=1)
                    m.d.top_comb += self.xrun.eq(x.run)

                if first:
                    xtrans()
                m.submodules.p = self.p
                if not first:
                    xtrans()
                return m

        top = Top()
        return top, [("call", "t", top.method), ("t0", "a", top.t[0]), ("t1", "a", top.t[1])], [("xen", top.xen)], [("xrun", top.xrun)]

    def alphabet(self, ref):
        if not hasattr(self, "_alpha"):
            self._alpha = self.product({p.name: opts(p.in_width) for p in self.ports}, {"xen": [0, 1]})
        return self._alpha

    def step(self, ref, inp, obs):
        c = self.calls(inp, obs)
        call, t0, t1 = c["call"], c["t0"], c["t1"]
        xrun = self.xobs(obs, "xrun")
        v = []
        if call.done != call.en:
            v.append(f"ready: the try-product must never block (en={call.en} done={call.done})")
        if xrun and not (self.xin(inp, "xen") and t0.en):
            v.append("contender: X runs while it or target 0 is not ready")
        if t0.done != (t0.en and (xrun or call.done)):
            v.append(f"target0.run: ready={t0.en} run={t0.done} X.run={xrun} product.run={call.done}")
        if t1.done != (call.done & t1.en):
            v.append(f"exactly_ready_targets_called: target 1 ready={t1.en} run={t1.done} method run={call.done}")
        if call.done and not v:
            won0 = bool(t0.done and not xrun)
            s = call.out & 3
            exp = int(won0) | (int(bool(t1.done)) << 1)
            if s != exp:
                v.append(f"success_bits: reported {s:02b}, the product's calls that ran {exp:02b} (target 0 granted to X: {bool(xrun)})")
            if won0 and t0.out != call.data:
                v.append(f"argument: target 0 received {t0.out}, caller passed {call.data}")
            if xrun and t0.en:
                self.count("nt_target_lost_to_contender")
        return v, ref


class NonexclusiveWrapperH(_H):
    def nonexclusive_ports(self):
        return {"c1", "c2"}

    def make(self):
        from transactron.lib.transformers import NonexclusiveWrapper
        w = self.cfg["w"]
        nw = NonexclusiveWrapper([("d", w)], [("r", w)])
        return nw, [("c1", "t", nw.method), ("c2", "t", nw.method), ("target", "a", nw.target)]

    def step(self, ref, inp, obs):
        c = self.calls(inp, obs)
        c1, c2, tgt = c["c1"], c["c2"], c["target"]
        v = []
        for name, x in (("c1", c1), ("c2", c2)):
            if x.done != (x.en & tgt.en):
                v.append(f"ready: {name}.done={x.done} en={x.en} target.ready={tgt.en}")
        if tgt.done != (c1.done | c2.done):
            v.append(f"forward: target.run={tgt.done} callers ran={c1.done},{c2.done}")
        if not v and tgt.done:
            for name, x in (("c1", c1), ("c2", c2)):
                if x.done and x.out != tgt.data:
                    v.append(f"result: {name} received {x.out}, target returned {tgt.data}")
            if c1.done != c2.done:
                src = c1 if c1.done else c2
                if tgt.out != src.data:
                    v.append(f"argument: target received {tgt.out}, the single caller passed {src.data}")
                self.count("nt_single_caller")
            else:
                self.count("nt_both_callers")
        return v, ref


class CollectorH(_H):
    """model: tuple of collected, not yet delivered results (the Forwarder holds at most one)"""

    def make(self):
        from transactron.lib.transformers import Collector
        c = self.cfg
        col = Collector(c["n"], [("r", c["w"])])
        return col, [("read", "t", col.method)] + [(f"t{i}", "a", m) for i, m in enumerate(col.targets)]

    def init(self):
        return ()

    def step(self, q, inp, obs):
        c = self.calls(inp, obs)
        rd = c["read"]
        T = [c[f"t{i}"] for i in range(self.cfg["n"])]
        v = []
        ran = [i for i, t in enumerate(T) if t.done]
        for i in ran:
            if not T[i].en:
                v.append(f"run_only_when_ready: target {i} ran while not ready")
        if len(ran) > 1:
            v.append(f"one_result_per_cycle: targets {ran} were all called in one cycle (one forwarder slot)")
        if v:
            return v, q
        nq = q + tuple(T[i].data for i in ran)
        if rd.done and not rd.en:
            v.append("read.spurious")
        if rd.done:
            if not nq:
                v.append("read.invented: a result was delivered although none was collected")
            elif rd.out != nq[0]:
                v.append(f"read.data: delivered {rd.out}, oldest collected result is {nq[0]}")
            nq = nq[1:]
        elif rd.en and nq:
            v.append("read.progress: a collected result is available but read did not run")
        if len(nq) > 1:
            v.append("lost: a target was called while the previous result was not delivered (it would be overwritten)")
        if not q and any(t.en for t in T) and not ran:
            v.append("collect.progress: nothing buffered, a target is ready, but none was called")
        if v:
            return v, q
        if ran and rd.done and not q:
            self.count("nt_forwarded_same_cycle")
        if q and any(t.en for t in T):
            self.count("nt_target_waits")
        if sum(t.en for t in T) > 1 and ran:
            self.count("nt_contended")
        return v, nq


def jobs(tier):
    q = tier == "quick"
    ws = (1,) if q else (1, 2)
    js = []
    for w in ws:
        js.append(E1("checks.c18", "ConnectTransH", {"w": w}))
        for n1, n2 in ((1, 2), (2, 1), (2, 2)) + (() if q else ((1, 3), (3, 1), (2, 3))):
            if w == 2 and n1 + n2 > 4:
                continue
            js.append(E1("checks.c18", "CrossbarH", {"n1": n1, "n2": n2, "w": w, "reduced": n1 + n2 > 3}))
        for var in ("none", "in", "out", "both"):
            js.append(E1("checks.c18", "MethodMapH", {"w": w, "variant": var}))
        for uc in (False, True):
            for cd in (False, True):
                js.append(E1("checks.c18", "MethodFilterH", {"w": w, "use_condition": uc, "custom_default": cd}))
                js.append(E1("checks.c18", "MethodFilterH", {"w": w, "use_condition": uc, "custom_default": cd, "cw": 2}))
            js.append(E1("checks.c18", "MethodFilterH", {"w": w, "use_condition": uc, "custom_default": False, "create": True}))
        for n in (1, 2, 3):
            for cb in (False, True):
                red = n * w > 3
                js.append(E1("checks.c18", "MethodProductH", {"n": n, "w": w, "combiner": cb, "reduced": red}))
                js.append(E1("checks.c18", "MethodTryProductH", {"n": n, "w": w, "combiner": cb, "reduced": red}))
        js.append(E1("checks.c18", "NonexclusiveWrapperH", {"w": w}))
        js.append(E1("checks.c18", "ConnectTransValH", {"w": w}))
        js.append(E1("checks.c18", "ConnectTransValH", {"w": w, "crossbar": True}))
        if w == 1:
            for xf in (False, True):
                js.append(E1("checks.c18", "MethodTryProductContendH", {"x_first": xf}))
        for n in (1, 2, 3):
            js.append(E1("checks.c18", "CollectorH", {"n": n, "w": w, "reduced": n * w > 3}))
    return js


def run(rep, tier):
    rep.rule = ("ConnectTrans, CrossbarConnectTrans (1x2, 2x1, 2x2; more thorough), MethodMap (no/in/out/both maps), MethodFilter "
                "(use_condition x default), MethodProduct and MethodTryProduct (1-3 targets, default and custom combiner), "
                "NonexclusiveWrapper (two callers) and Collector (1-3 targets, BFS over the Forwarder) behind real "
                "AdapterTrans callers and real Adapter targets; every readiness pattern x argument x returned value; each "
                "clause of the statement is an equation on run/ready/data pins")
    rep.assumptions = ["pysim semantics", "payload width 1 (1-2 thorough)", "NonexclusiveWrapper's argument is only compared when "
                       "exactly one caller runs (its documentation assumes a single call per cycle)"]
    rep.add_e1(run_jobs(jobs(tier)))
    return {"states": 25, "transitions": 2000, "replayed": 25, "nt_transfer": 4, "nt_two_transfers": 4, "nt_called": 20,
            "nt_passed": 8, "nt_filtered": 8, "nt_filtered_while_target_unready": 4, "nt_partial": 8,
            "nt_forwarded_same_cycle": 2, "nt_target_waits": 2, "nt_both_callers": 2, "nt_rejected_value": 2,
            "nt_target_lost_to_contender": 2}
