"""C19 -- Serializer and ArgumentsToResultsZipper keep requests and responses matched."""
from vlib.ports import MethodHarness, opts
from vlib.runner import E1, run_jobs, run_big

PROP = "C19"


class SerializerH(MethodHarness):
    def make(self):
        from transactron import Method
        from transactron.lib.reqres import Serializer
        c = self.cfg
        req = Method(i=[("d", 1)])
        resp = Method(o=[("d", 1)])
        s = Serializer(port_count=c["ports"], serialized_req_method=req, serialized_resp_method=resp, depth=c["depth"])
        ms = [("req", "a", req), ("resp", "a", resp)]
        ms += [(f"in{i}", "t", s.serialize_in[i]) for i in range(c["ports"])]
        ms += [(f"out{i}", "t", s.serialize_out[i]) for i in range(c["ports"])]
        ms += [("clear", "t", s.clear)]
        return s, ms

    def init(self):
        return ()   # ids of clients with outstanding requests, oldest first

    def alphabet(self, q):
        key = len(q) > 0
        cache = self.__dict__.setdefault("_alpha", {})
        if key not in cache:
            c = self.cfg
            ch = {"req": [(0, 0), (1, 0)],
                  # in-order server: may only answer when something is outstanding
                  "resp": [(0, 0), (1, 0), (1, 1)] if key else [(0, 0)]}
            for i in range(c["ports"]):
                ch[f"in{i}"] = [(0, 0), (1, 0), (1, 1)]
                ch[f"out{i}"] = [(0, 0), (1, 0)]
            ch["clear"] = [(0, 0), (1, 0)]
            cache[key] = self.product(ch)
        return cache[key]

    def step(self, q, inp, obs):
        cfg = self.cfg
        P, depth = cfg["ports"], cfg["depth"]
        c = self.calls(inp, obs)
        req, resp, cl = c["req"], c["resp"], c["clear"]
        ins = [c[f"in{i}"] for i in range(P)]
        outs = [c[f"out{i}"] for i in range(P)]
        v = []
        can_in = len(q) < depth and req.en
        nin = sum(x.done for x in ins)
        if nin > 1:
            v.append(f"in.exclusive: {nin} requests accepted in one cycle")
        if any(x.done and not x.en for x in ins):
            v.append("in.spurious: request accepted without en")
        want = any(x.en for x in ins)
        if (nin == 1) != (want and can_in):
            v.append(f"in.ready: accepted={nin} wanted={want} server_ready={req.en} outstanding={len(q)}")
        if req.done != (nin == 1):
            v.append(f"req.run: server request ran={req.done} but accepted={nin}")
        who = next((i for i, x in enumerate(ins) if x.done), None)
        if who is not None and req.done and req.out != ins[who].data:
            v.append(f"req.data: server saw {req.out}, client {who} sent {ins[who].data}")
        nout = sum(x.done for x in outs)
        for i, x in enumerate(outs):
            exp = x.en and len(q) > 0 and q[0] == i and resp.en
            if x.done and (len(q) == 0 or q[0] != i):
                v.append(f"out.owner: client {i} received a response but oldest outstanding request is "
                         f"{q[0] if q else None}")
            elif x.done != exp:
                v.append(f"out.ready: client {i} done={x.done} en={x.en} head={q[0] if q else None} server_resp={resp.en}")
            if x.done and x.out != resp.data:
                v.append(f"out.data: client {i} got {x.out}, server answered {resp.data}")
        if resp.done != (nout == 1):
            v.append(f"resp.run: server response consumed={resp.done} delivered={nout}")
        if cl.done != cl.en:
            v.append("clear.ready: always ready")
        if v:
            return v, q
        if nin and nout:
            self.count("nt_req_and_resp_same_cycle")
        if sum(x.en for x in ins) >= 2 and nin == 1:
            self.count("nt_arbitrated")
        if any(x.en and not x.done for i, x in enumerate(outs) if q and q[0] != i) and q:
            self.count("nt_wrong_client_waits")
        if cl.done and (nin or nout):
            self.count("nt_clear_with_other")
        nq = q
        if nout:
            nq = nq[1:]
        if nin:
            nq = nq + (who,)
        if cl.done:
            nq = ()
        return v, nq


class ZipperH(MethodHarness):
    def nonexclusive_ports(self):
        return {"peek_arg"}       # documented: "A nonexclusive method to read (but not delete) the head of the arg queue"

    def make(self):
        from transactron.lib.reqres import ArgumentsToResultsZipper
        w = self.cfg["width"]
        z = ArgumentsToResultsZipper([("a", w)], [("r", w)])
        return z, [("write_args", "t", z.write_args), ("write_results", "t", z.write_results), ("read", "t", z.read),
                   ("peek_arg", "t", z.peek_arg)]

    def init(self):
        return ((), None)

    def alphabet(self, ref):
        if not hasattr(self, "_alpha"):
            w = self.cfg["width"]
            self._alpha = self.product({"write_args": opts(w), "write_results": opts(w), "read": opts(0), "peek_arg": opts(0)})
        return self._alpha

    def step(self, ref, inp, obs):
        args, res = ref
        c = self.calls(inp, obs)
        wa, wr, rd, pk = c["write_args"], c["write_results"], c["read"], c["peek_arg"]
        v = []
        if wa.done != (wa.en and len(args) < 2):
            v.append(f"write_args.ready: done={wa.done} en={wa.en} queued={len(args)}")
        if wr.done != (wr.en and res is None):
            v.append(f"write_results.ready: done={wr.done} en={wr.en} slot={res}")
        have_res = res is not None or wr.done
        if rd.done and not (len(args) > 0 and have_res):
            v.append(f"read.spurious: read ran with args={args} result slot={res} write_results.run={wr.done}")
        elif rd.done != (rd.en and len(args) > 0 and have_res):
            v.append(f"read.ready: done={rd.done} en={rd.en} args={args} slot={res} write_results.run={wr.done}")
        if pk.done != (pk.en and len(args) > 0):
            v.append(f"peek_arg.ready: done={pk.done} en={pk.en} queued={len(args)}")
        if pk.done and pk.out != args[0]:
            v.append(f"peek_arg.data: {pk.out} expected {args[0]}")
        if rd.done:
            r = self.port["read"].ret(rd.out)
            er = res if res is not None else wr.data
            if r["args"]["a"] != args[0] or r["results"]["r"] != er:
                v.append(f"read.pair: got ({r['args']['a']},{r['results']['r']}) expected ({args[0]},{er})")
        if v:
            return v, ref
        if rd.done and wr.done:
            self.count("nt_result_forwarded")
        if rd.done and wa.done:
            self.count("nt_read_and_write_args")
        na, nr = args, res
        if rd.done:
            na = na[1:]
            nr = None
        elif wr.done:
            nr = wr.data
        if wa.done:
            na = na + (wa.data,)
        return v, (na, nr)


def jobs(tier):
    small, big = [], []
    if tier == "quick":
        small += [E1("checks.c19", "SerializerH", {"ports": p, "depth": d}) for p, d in [(1, 1), (1, 2), (2, 1), (2, 2)]]
        small += [E1("checks.c19", "ZipperH", {"width": w}) for w in (1, 2)]
        big += [E1("checks.c19", "SerializerH", {"ports": 2, "depth": 3})]
    else:
        small += [E1("checks.c19", "SerializerH", {"ports": p, "depth": d}) for p, d in [(1, 1), (1, 2), (1, 4), (2, 1), (2, 2)]]
        small += [E1("checks.c19", "ZipperH", {"width": w}) for w in (1, 2, 3)]
        big += [E1("checks.c19", "SerializerH", {"ports": p, "depth": d}) for p, d in [(2, 3), (2, 4), (3, 1), (3, 2), (3, 3)]]
    return small, big


def run(rep, tier):
    rep.rule = ("complete BFS of Serializer (server = two real Adapters whose readiness and response data the explorer drives; "
                "responses only while a request is outstanding = in-order server assumption) against a queue of client ids, and "
                "of ArgumentsToResultsZipper against two queues; non-trivial = request and response in the same cycle, >=2 "
                "clients competing, a client polling while the oldest request belongs to another, clear with traffic, result "
                "forwarded in the cycle it is written")
    rep.assumptions = ["pysim semantics", "server answers in request order and only outstanding requests", "1-bit payloads"]
    small, big = jobs(tier)
    rep.add_e1(run_jobs(small))
    rep.add_e1(run_big(big))
    return {"states": 100, "transitions": 10000, "replayed": 20, "nt_req_and_resp_same_cycle": 100, "nt_arbitrated": 100,
            "nt_wrong_client_waits": 100, "nt_clear_with_other": 100, "nt_result_forwarded": 10}
