"""C20 -- Semaphore counts acquisitions."""
from vlib.ports import MethodHarness, opts
from vlib.runner import E1, run_jobs

PROP = "C20"


class SemaphoreH(MethodHarness):
    def make(self):
        from transactron.lib.fifo import Semaphore
        s = Semaphore(self.cfg["max_count"])
        return s, [("acquire", "t", s.acquire), ("release", "t", s.release), ("clear", "t", s.clear)], [], [("count", s.count)]

    def init(self):
        return 0

    def alphabet(self, ref):
        if not hasattr(self, "_alpha"):
            self._alpha = self.product({"acquire": opts(0), "release": opts(0), "clear": opts(0)})
        return self._alpha

    def step(self, n, inp, obs):
        c = self.calls(inp, obs)
        mx = self.cfg["max_count"]
        aq, rl, cl = c["acquire"], c["release"], c["clear"]
        v = []
        if self.xobs(obs, "count") != n:
            v.append(f"count: hardware count {self.xobs(obs, 'count')} != acquisitions-releases {n}")
        if aq.done != (aq.en and n < mx):
            v.append(f"acquire.ready: done={aq.done} en={aq.en} count={n}")
        if rl.done != (rl.en and n > 0):
            v.append(f"release.ready: done={rl.done} en={rl.en} count={n}")
        if cl.done != cl.en:
            v.append("clear.ready: always ready")
        if v:
            return v, n
        if aq.done and rl.done:
            self.count("nt_acq_and_rel")
        if cl.done and (aq.done or rl.done):
            self.count("nt_clear_with_other")
        if (aq.en and not aq.done) or (rl.en and not rl.done):
            self.count("nt_refused")
        nn = 0 if cl.done else n + aq.done - rl.done
        return v, nn


def jobs(tier):
    ms = (1, 2, 3, 5) if tier == "quick" else (1, 2, 3, 4, 5, 7, 8, 16)
    return [E1("checks.c20", "SemaphoreH", {"max_count": m}) for m in ms]


def run(rep, tier):
    rep.rule = ("complete BFS of Semaphore behind three AdapterTrans against an integer model, all 8 enable valuations in "
                "every state; the internal count register is compared with the model in every state; non-trivial = "
                "acquire+release together, clear with another call, refused calls")
    rep.assumptions = ["pysim semantics"]
    rep.add_e1(run_jobs(jobs(tier)))
    return {"states": 10, "transitions": 80, "replayed": 4, "nt_acq_and_rel": 4, "nt_clear_with_other": 8, "nt_refused": 8}
