"""C21 -- MemoryBank returns what an ideal memory holds.   C22 lives in c22.py and reuses helpers."""
import itertools
from vlib.ports import MethodHarness, pack
from vlib.runner import E1, run_jobs, run_big

PROP = "C21"

MEMTYPES = {
    "Memory": lambda: __import__("amaranth.lib.memory", fromlist=["Memory"]).Memory,
    "MultiReadMemory": lambda: __import__("transactron.utils.amaranth_ext.memory", fromlist=["x"]).MultiReadMemory,
    "MultiportXORMemory": lambda: __import__("transactron.utils.amaranth_ext.memory", fromlist=["x"]).MultiportXORMemory,
    "MultiportXORILVTMemory": lambda: __import__("transactron.utils.amaranth_ext.memory", fromlist=["x"]).MultiportXORILVTMemory,
    "MultiportOneHotILVTMemory": lambda: __import__("transactron.utils.amaranth_ext.memory", fromlist=["x"]).MultiportOneHotILVTMemory,
}


def apply_writes(mem, writes, width, gran):
    """writes: list of (addr, data, mask) ; mask None = whole word. gran = bits per mask bit."""
    mem = list(mem)
    for addr, data, mask in writes:
        if mask is None:
            mem[addr] = data
        else:
            bm = 0
            for k in range(width // gran):
                if (mask >> k) & 1:
                    bm |= ((1 << gran) - 1) << (k * gran)
            mem[addr] = (mem[addr] & ~bm) | (data & bm)
    return tuple(mem)


def write_options(layout, depth, width, gran, reduced=True, wdata=None, idle_payload=False):
    """idle_payload: the argument pins also take every value while the port is NOT called (a caller that keeps driving its
    last argument) -- the reduced alphabet fixes them to 0 in idle cycles"""
    out = [(0, 0)]
    for a in range(depth):
        for d in (range(1 << width) if wdata is None else wdata):
            if gran is None:
                out.append((1, pack(layout, {"addr": a, "data": d})))
            else:
                for mk in range(1 << (width // gran)):
                    out.append((1, pack(layout, {"addr": a, "data": d, "mask": mk})))
    if idle_payload:
        out += [(0, p) for e, p in out[1:] if p != 0]
    return out


class MemBankH(MethodHarness):
    def make(self):
        from transactron.lib.storage import MemoryBank
        c = self.cfg
        mb = MemoryBank(shape=c["width"], depth=c["depth"], granularity=c.get("gran"), transparent=c["transparent"],
                        read_on_resp=c["read_on_resp"], read_ports=c["rp"], write_ports=c["wp"],
                        memory_type=MEMTYPES[c.get("memtype", "Memory")]())
        ms = []
        for i in range(c["rp"]):
            ms += [(f"req{i}", "t", mb.read_req[i]), (f"resp{i}", "t", mb.read_resp[i])]
        ms += [(f"write{i}", "t", mb.write[i]) for i in range(c["wp"])]
        return mb, ms

    def init(self):
        c = self.cfg
        return ((0,) * c["depth"], tuple(() for _ in range(c["rp"])))

    def alphabet(self, ref):
        if not hasattr(self, "_alpha"):
            c = self.cfg
            D, W, G = c["depth"], c["width"], c.get("gran")
            wl = self.port["write0"].in_layout
            wopts = write_options(wl, D, W, G, wdata=c.get("wdata"), idle_payload=c.get("idle_payload", False))
            ch = {}
            for i in range(c["rp"]):
                ch[f"req{i}"] = [(0, 0)] + [(1, a) for a in range(D)]
                ch[f"resp{i}"] = [(0, 0), (1, 0)]
            for i in range(c["wp"]):
                ch[f"write{i}"] = wopts
            alpha = self.product(ch)
            if c["wp"] > 1:  # precondition: no two write ports on the same row in one cycle
                ixs = [self._in_ix[f"write{i}"] for i in range(c["wp"])]
                keep = []
                for val in alpha:
                    rows = [self.port["write0"].arg(val[d])["addr"] for e, d in ixs if val[e]]
                    if len(set(rows)) == len(rows):
                        keep.append(val)
                alpha = keep
            self._alpha = alpha
        return self._alpha

    def step(self, ref, inp, obs):
        cfg = self.cfg
        W, G = cfg["width"], cfg.get("gran")
        mem, pend = ref
        c = self.calls(inp, obs)
        v = []
        writes = []
        for i in range(cfg["wp"]):
            w = c[f"write{i}"]
            if w.done != w.en:
                v.append(f"write.ready: port {i} always ready")
            if w.done:
                a = self.port[f"write{i}"].arg(w.data)
                writes.append((a["addr"], a["data"], a.get("mask") if G is not None else None))
        mem_after = apply_writes(mem, writes, W, G)
        view = mem_after if cfg["transparent"] else mem
        npend = []
        for i in range(cfg["rp"]):
            rq, rs = c[f"req{i}"], c[f"resp{i}"]
            p = pend[i]
            if rq.done != (rq.en and len(p) < 2):
                v.append(f"read_req.ready: port {i} done={rq.done} en={rq.en} pending={len(p)}")
            if rs.done != (rs.en and len(p) > 0):
                v.append(f"read_resp.ready: port {i} done={rs.done} en={rs.en} pending={len(p)}")
            if rs.done and p:
                exp = view[p[0]] if cfg["read_on_resp"] else p[0]
                if rs.out != exp:
                    v.append(f"read_resp.data: port {i} got {rs.out:#b} expected {exp:#b}")
            q = p
            if rs.done:
                q = q[1:]
            if rq.done:
                q = q + ((rq.data if cfg["read_on_resp"] else view[rq.data]),)
            npend.append(q)
        if v:
            return v, ref
        for i in range(cfg["rp"]):
            rq, rs = c[f"req{i}"], c[f"resp{i}"]
            if rq.done and rs.done:
                self.count("nt_req_and_resp")
            if rq.done and len(pend[i]) == 1 and not rs.done:
                self.count("nt_overflow_buffer_used")
            if rq.done and any(w[0] == rq.data for w in writes):
                self.count("nt_same_cycle_write_to_requested_row")
            if rs.done and cfg["read_on_resp"] and any(w[0] == pend[i][0] for w in writes):
                self.count("nt_same_cycle_write_to_pending_row")
        return v, (mem_after, tuple(npend))


def grid(tier):
    small, big = [], []
    flags = [(t, r) for t in (False, True) for r in (False, True)]
    if tier == "quick":
        for t, r in flags:
            small.append({"depth": 2, "width": 1, "rp": 1, "wp": 1, "transparent": t, "read_on_resp": r})
            small.append({"depth": 3, "width": 1, "rp": 1, "wp": 1, "transparent": t, "read_on_resp": r})
            small.append({"depth": 2, "width": 1, "rp": 1, "wp": 2, "transparent": t, "read_on_resp": r})
        small.append({"depth": 2, "width": 1, "rp": 2, "wp": 1, "transparent": True, "read_on_resp": True})
        for t, r in flags:
            big.append(({"depth": 2, "width": 2, "gran": 1, "rp": 1, "wp": 1, "transparent": t, "read_on_resp": r}, {}))
        big.append(({"depth": 2, "width": 1, "rp": 2, "wp": 1, "transparent": False, "read_on_resp": False}, {}))
        # granules wider than one bit (mask expansion), restricted data alphabet
        for t, r in flags:
            big.append(({"depth": 2, "width": 4, "gran": 2, "rp": 1, "wp": 1, "transparent": t, "read_on_resp": r,
                         "wdata": [0, 15]}, {"max_depth": 4}))
        # callers that keep driving their last argument while idle (the reduced alphabet zeroes idle payloads)
        for t, r in ((False, False), (True, True)):
            small.append({"depth": 2, "width": 1, "rp": 1, "wp": 2, "transparent": t, "read_on_resp": r, "idle_payload": True})
            big.append(({"depth": 2, "width": 2, "gran": 1, "rp": 1, "wp": 1, "transparent": t, "read_on_resp": r,
                         "idle_payload": True, "wdata": [0, 3]}, {"max_depth": 4}))
        # the other memory primitives behind the bank (response held over several cycles)
        for t, r in flags:
            small.append({"depth": 2, "width": 1, "rp": 1, "wp": 1, "transparent": t, "read_on_resp": r,
                          "memtype": "MultiReadMemory"})
    else:
        for t, r in flags:
            for d, w, g in [(2, 1, None), (2, 2, None), (2, 2, 1), (3, 1, None), (3, 2, 1), (4, 1, None), (2, 4, 2)]:
                cfg = {"depth": d, "width": w, "rp": 1, "wp": 1, "transparent": t, "read_on_resp": r}
                if g:
                    cfg["gran"] = g
                (small if d * w <= 4 else big).append(cfg if d * w <= 4 else (cfg, {}))
            for rp, wp in [(2, 1), (1, 2), (2, 2)]:
                big.append(({"depth": 2, "width": 1, "rp": rp, "wp": wp, "transparent": t, "read_on_resp": r}, {}))
            big.append(({"depth": 2, "width": 2, "gran": 1, "rp": 1, "wp": 2, "transparent": t, "read_on_resp": r},
                        {"max_states": 10000}))
            for mt in ("MultiReadMemory", "MultiportXORMemory", "MultiportXORILVTMemory", "MultiportOneHotILVTMemory"):
                big.append(({"depth": 2, "width": 1, "rp": 1, "wp": 1 if mt == "MultiReadMemory" else 2, "transparent": t,
                             "read_on_resp": r, "memtype": mt}, {"max_states": 10000}))
            big.append(({"depth": 2, "width": 4, "gran": 2, "rp": 1, "wp": 1, "transparent": t, "read_on_resp": r,
                         "idle_payload": True, "wdata": [0, 15, 6]}, {"max_states": 10000}))
    return small, big


def jobs(tier):
    small, big = grid(tier)
    return ([E1("checks.c21", "MemBankH", c) for c in small], [E1("checks.c21", "MemBankH", c, **caps) for c, caps in big])


def run(rep, tier):
    rep.rule = ("BFS of MemoryBank behind AdapterTrans for read_req/read_resp/write on every port against an ideal array plus a "
                "per-port queue (capacity 2) of pending responses; value captured at request time, or the address with "
                "read_on_resp; same-cycle writes counted iff transparent; write masks with granularity; no two write ports on "
                "one row per cycle (precondition); non-trivial = request+response in one cycle, overflow buffer used, write "
                "to the requested / pending row in the request / response cycle")
    rep.assumptions = ["pysim semantics", "no two write ports address the same row in one cycle (precondition)",
                       "addresses inside range(depth)", "depth <= 4, width <= 4"]
    small, big = jobs(tier)
    rep.add_e1(run_jobs(small))
    rep.add_e1(run_big(big))
    return {"states": 500, "transitions": 20000, "replayed": 50, "nt_req_and_resp": 500, "nt_overflow_buffer_used": 500,
            "nt_same_cycle_write_to_requested_row": 500, "nt_same_cycle_write_to_pending_row": 200}
