"""C22 -- AsyncMemoryBank reads current contents."""
from vlib.ports import MethodHarness
from vlib.runner import E1, run_jobs, run_big
from checks.c21 import apply_writes, write_options, MEMTYPES

PROP = "C22"


class AsyncBankH(MethodHarness):
    def make(self):
        from transactron.lib.storage import AsyncMemoryBank
        c = self.cfg
        mb = AsyncMemoryBank(shape=c["width"], depth=c["depth"], granularity=c.get("gran"), read_ports=c["rp"],
                             write_ports=c["wp"])
        ms = [(f"read{i}", "t", mb.read[i]) for i in range(c["rp"])]
        ms += [(f"write{i}", "t", mb.write[i]) for i in range(c["wp"])]
        return mb, ms

    def init(self):
        return (0,) * self.cfg["depth"]

    def alphabet(self, ref):
        if not hasattr(self, "_alpha"):
            c = self.cfg
            D, W, G = c["depth"], c["width"], c.get("gran")
            wopts = write_options(self.port["write0"].in_layout, D, W, G, wdata=c.get("wdata"),
                                  idle_payload=c.get("idle_payload", False))
            ch = {}
            for i in range(c["rp"]):
                ch[f"read{i}"] = [(0, 0)] + [(1, a) for a in range(D)]
            for i in range(c["wp"]):
                ch[f"write{i}"] = wopts
            alpha = self.product(ch)
            if c["wp"] > 1:
                ixs = [self._in_ix[f"write{i}"] for i in range(c["wp"])]
                alpha = [val for val in alpha if len({self.port["write0"].arg(val[d])["addr"] for e, d in ixs if val[e]})
                         == sum(1 for e, d in ixs if val[e])]
            self._alpha = alpha
        return self._alpha

    def step(self, mem, inp, obs):
        cfg = self.cfg
        c = self.calls(inp, obs)
        v = []
        writes = []
        for i in range(cfg["wp"]):
            w = c[f"write{i}"]
            if w.done != w.en:
                v.append(f"write.ready: port {i} always ready")
            if w.done:
                a = self.port[f"write{i}"].arg(w.data)
                writes.append((a["addr"], a["data"], a.get("mask") if cfg.get("gran") else None))
        for i in range(cfg["rp"]):
            r = c[f"read{i}"]
            if r.done != r.en:
                v.append(f"read.ready: port {i} always ready")
            if r.done and r.out != mem[r.data]:
                v.append(f"read.data: port {i} addr {r.data} got {r.out:#b} expected {mem[r.data]:#b}")
            if r.done and any(w[0] == r.data for w in writes):
                self.count("nt_read_row_being_written")
        if v:
            return v, mem
        if len(writes) >= 2:
            self.count("nt_two_writes")
        return v, apply_writes(mem, writes, cfg["width"], cfg.get("gran"))


def jobs(tier):
    if tier == "quick":
        small = [{"depth": 2, "width": 1, "rp": 1, "wp": 1}, {"depth": 3, "width": 1, "rp": 1, "wp": 1},
                 {"depth": 2, "width": 2, "rp": 1, "wp": 1}, {"depth": 2, "width": 2, "gran": 1, "rp": 1, "wp": 1},
                 {"depth": 2, "width": 1, "rp": 2, "wp": 1}, {"depth": 2, "width": 1, "rp": 1, "wp": 2},
                 {"depth": 3, "width": 1, "rp": 2, "wp": 2}]
        # a single mask lane (granularity == width), and callers that keep driving their last argument while idle
        small += [{"depth": 2, "width": 1, "gran": 1, "rp": 1, "wp": 1}, {"depth": 2, "width": 2, "gran": 2, "rp": 1, "wp": 1},
                  {"depth": 2, "width": 1, "rp": 1, "wp": 2, "idle_payload": True},
                  {"depth": 2, "width": 1, "gran": 1, "rp": 1, "wp": 2, "idle_payload": True}]
        big = [{"depth": 2, "width": 2, "gran": 1, "rp": 2, "wp": 2},
               {"depth": 2, "width": 2, "gran": 1, "rp": 1, "wp": 2, "idle_payload": True, "wdata": [0, 3]}]
    else:
        small = [{"depth": d, "width": w, "rp": r, "wp": p} for d in (2, 3) for w in (1, 2) for r in (1, 2) for p in (1, 2)]
        small += [{"depth": 2, "width": 2, "gran": 1, "rp": 1, "wp": 1}, {"depth": 4, "width": 1, "rp": 1, "wp": 1}]
        big = [{"depth": 2, "width": 2, "gran": 1, "rp": 2, "wp": 2}, {"depth": 3, "width": 2, "gran": 1, "rp": 2, "wp": 2},
               {"depth": 4, "width": 2, "gran": 1, "rp": 1, "wp": 2}, {"depth": 2, "width": 4, "gran": 2, "rp": 1, "wp": 2},
               {"depth": 4, "width": 1, "rp": 3, "wp": 3},
               {"depth": 2, "width": 2, "gran": 1, "rp": 1, "wp": 2, "idle_payload": True},
               {"depth": 3, "width": 4, "gran": 2, "rp": 1, "wp": 2, "idle_payload": True, "wdata": [0, 15, 6]}]
        small += [{"depth": 2, "width": w, "gran": w, "rp": 1, "wp": p} for w in (1, 2, 3) for p in (1, 2)]
        small += [{"depth": 2, "width": 1, "gran": 1, "rp": 1, "wp": 2, "idle_payload": True}]
    return [E1("checks.c22", "AsyncBankH", c) for c in small], [E1("checks.c22", "AsyncBankH", c) for c in big]


def run(rep, tier):
    rep.rule = ("complete BFS of AsyncMemoryBank behind AdapterTrans per port against an ideal array: a read returns the contents "
                "at the start of the cycle, writes (with masks under granularity) become visible in the next cycle; no two "
                "write ports on one row per cycle (precondition); non-trivial = read of a row written in the same cycle, two "
                "writes in one cycle")
    rep.assumptions = ["pysim semantics", "no same-row simultaneous writes (precondition)", "depth <= 4, width <= 4"]
    small, big = jobs(tier)
    rep.add_e1(run_jobs(small))
    rep.add_e1(run_big(big))
    return {"states": 50, "transitions": 5000, "replayed": 20, "nt_read_row_being_written": 500, "nt_two_writes": 500}
