"""C23 -- multiport memories are equivalent to an ideal synchronous memory (miter against amaranth.lib.memory.Memory)."""
import itertools
from amaranth import Elaboratable, Module, Signal
from amaranth.lib import memory as amem
from vlib.ports import MethodHarness
from vlib.runner import E1, run_jobs, run_big

PROP = "C23"


class Miter(Elaboratable):
    def __init__(self, cfg):
        from transactron.utils.amaranth_ext import memory as tmem
        self.cfg = cfg
        W, D = cfg["width"], cfg["depth"]
        init = list(cfg.get("init", []))
        cls = getattr(tmem, cfg["mem"])
        self.dut = cls(shape=W, depth=D, init=init)
        self.ref = amem.Memory(shape=W, depth=D, init=init)
        g = cfg.get("gran")
        self.dw = [self.dut.write_port(granularity=g) for _ in range(cfg["wp"])]
        self.rw = [self.ref.write_port(granularity=g) for _ in range(cfg["wp"])]
        tr = cfg.get("transparent", "none")   # none | all | list of [read, write] pairs
        self.dr, self.rr = [], []
        for i in range(cfg["rp"]):
            if tr == "all":
                ws = list(range(cfg["wp"]))
            elif tr == "none":
                ws = []
            else:
                ws = [w for r, w in tr if r == i]
            self.dr.append(self.dut.read_port(transparent_for=[self.dw[w] for w in ws]))
            self.rr.append(self.ref.read_port(transparent_for=[self.rw[w] for w in ws]))
        enw = len(self.rw[0].en) if self.rw else 1
        self.w_en = [Signal(enw, name=f"w{i}_en") for i in range(cfg["wp"])]
        self.w_addr = [Signal(range(D), name=f"w{i}_addr") for i in range(cfg["wp"])]
        self.w_data = [Signal(W, name=f"w{i}_data") for i in range(cfg["wp"])]
        self.r_en = [Signal(name=f"r{i}_en") for i in range(cfg["rp"])]
        self.r_addr = [Signal(range(D), name=f"r{i}_addr") for i in range(cfg["rp"])]

    def elaborate(self, platform):
        m = Module()
        m.submodules.dut = self.dut
        m.submodules.ref = self.ref
        for i in range(self.cfg["wp"]):
            for p in (self.dw[i], self.rw[i]):
                m.d.comb += [p.en.eq(self.w_en[i]), p.addr.eq(self.w_addr[i]), p.data.eq(self.w_data[i])]
        for i in range(self.cfg["rp"]):
            for p in (self.dr[i], self.rr[i]):
                m.d.comb += [p.en.eq(self.r_en[i]), p.addr.eq(self.r_addr[i])]
        return m


class MiterH(MethodHarness):
    def make(self):
        mt = Miter(self.cfg)
        c = self.cfg
        xin = []
        for i in range(c["wp"]):
            xin += [(f"w{i}.en", mt.w_en[i]), (f"w{i}.addr", mt.w_addr[i]), (f"w{i}.data", mt.w_data[i])]
        for i in range(c["rp"]):
            xin += [(f"r{i}.en", mt.r_en[i]), (f"r{i}.addr", mt.r_addr[i])]
        xobs = []
        for i in range(c["rp"]):
            xobs += [(f"r{i}.dut", mt.dr[i].data), (f"r{i}.ideal", mt.rr[i].data)]
        return mt, [], xin, xobs

    def init(self):
        return 0  # number of cycles since reset, saturating (only used for non-triviality counting)

    def alphabet(self, ref):
        if not hasattr(self, "_alpha"):
            c = self.cfg
            D, W = c["depth"], c["width"]
            enw = (W // c["gran"]) if c.get("gran") else 1
            red = c.get("reduced", True)
            rows = c.get("rows", list(range(D)))           # optional restrictions of the alphabet (a smaller bound,
            wdata = c.get("wdata", list(range(1 << W)))    # named in the configuration; never claimed equivalent)
            wen = c.get("wen", list(range(1, 1 << enw)))
            wopt = [(0, 0, 0)]
            if not red:
                wopt += [(0, a, d) for a in rows for d in wdata if (a, d) != (0, 0)]
            wopt += [(e, a, d) for e in wen for a in rows for d in wdata]
            ropt = [(0, 0)] + ([(0, a) for a in rows if a] if not red else []) + [(1, a) for a in rows]
            out = []
            for ws in itertools.product(wopt, repeat=c["wp"]):
                rows = [w[1] for w in ws if w[0]]
                if len(set(rows)) != len(rows):
                    continue   # precondition: no two write ports on the same row in one cycle
                for rs in itertools.product(ropt, repeat=c["rp"]):
                    out.append(tuple(x for w in ws for x in w) + tuple(x for r in rs for x in r))
            self._alpha = out
        return self._alpha

    def step(self, age, inp, obs):
        c = self.cfg
        v = []
        for i in range(c["rp"]):
            d, r = obs[2 * i], obs[2 * i + 1]
            if d != r:
                v.append(f"read.data: port {i} returns {d:#b}, ideal memory {r:#b}")
        if v:
            return v, age
        nw = sum(1 for i in range(c["wp"]) if inp[3 * i])
        if nw >= 2:
            self.count("nt_two_writes")
        base = 3 * c["wp"]
        for i in range(c["rp"]):
            if inp[base + 2 * i] and any(inp[3 * j] and inp[3 * j + 1] == inp[base + 2 * i + 1] for j in range(c["wp"])):
                self.count("nt_read_row_being_written")
        return v, 0


def cfgs(tier):
    small, big = [], []
    if tier == "quick":
        for tr in ("none", "all"):
            for init in ([], [1, 0]):
                small.append(({"mem": "MultiReadMemory", "depth": 2, "width": 1, "rp": 2, "wp": 1, "transparent": tr, "init": init}, {}))
        small.append(({"mem": "MultiReadMemory", "depth": 2, "width": 2, "gran": 1, "rp": 1, "wp": 1, "transparent": "all",
                       "init": [2, 1]}, {}))
        for mem in ("MultiportXORMemory", "MultiportXORILVTMemory", "MultiportOneHotILVTMemory"):
            for tr in ("none", "all"):
                big.append(({"mem": mem, "depth": 2, "width": 1, "rp": 1, "wp": 2, "transparent": tr, "init": [1, 0]},
                            {"max_depth": 3}))
            big.append(({"mem": mem, "depth": 4, "width": 1, "rp": 1, "wp": 2, "transparent": "all", "init": []},
                        {"max_depth": 2}))
        for mem in ("MultiportXORILVTMemory", "MultiportOneHotILVTMemory"):
            for tr in ("none", "all"):
                big.append(({"mem": mem, "depth": 2, "width": 2, "gran": 1, "rp": 1, "wp": 2, "transparent": tr, "init": [],
                             "rows": [0], "wdata": [0, 3], "wen": [1, 3]}, {"max_depth": 4}))
        # a write-port count that is not a power of two (bank-number widths), restricted data alphabet
        for mem in ("MultiportXORMemory", "MultiportXORILVTMemory", "MultiportOneHotILVTMemory"):
            big.append(({"mem": mem, "depth": 2, "width": 1, "rp": 1, "wp": 3, "transparent": "none", "init": [],
                         "wdata": [1]}, {"max_depth": 3}))
            # a read port that is transparent for only one of the two write ports
            big.append(({"mem": mem, "depth": 2, "width": 1, "rp": 1, "wp": 2, "transparent": [[0, 1]], "init": [1, 0]},
                        {"max_depth": 2}))
        # granules wider than one bit (1 < granularity < width), one write port, transparent read, partial masks
        for mem in ("MultiportXORILVTMemory", "MultiportOneHotILVTMemory", "MultiReadMemory"):
            small.append(({"mem": mem, "depth": 2, "width": 4, "gran": 2, "rp": 1, "wp": 1, "transparent": "all", "init": [],
                           "rows": [0], "wdata": [0, 6, 15], "wen": [1, 2, 3]}, {"max_depth": 3}))
    else:
        for tr in ("none", "all"):
            for init in ([], [1, 0]):
                small.append(({"mem": "MultiReadMemory", "depth": 2, "width": 1, "rp": 2, "wp": 1, "transparent": tr,
                               "init": init, "reduced": False}, {}))
                small.append(({"mem": "MultiReadMemory", "depth": 3, "width": 2, "rp": 2, "wp": 1, "transparent": tr,
                               "init": init}, {}))
        small.append(({"mem": "MultiReadMemory", "depth": 2, "width": 2, "gran": 1, "rp": 2, "wp": 1,
                       "transparent": [[0, 0]], "init": [2, 1], "reduced": False}, {}))
        for mem in ("MultiportXORMemory", "MultiportXORILVTMemory", "MultiportOneHotILVTMemory"):
            # every configuration is bounded by depth AND by a state cap so that the whole tier stays within ~30 minutes;
            # the evidence reports the depth actually completed per configuration
            cap = {"max_states": 120000}
            for tr in ("none", "all", [[0, 1]]):
                big.append(({"mem": mem, "depth": 2, "width": 1, "rp": 1, "wp": 2, "transparent": tr, "init": [1, 0]},
                            dict(cap, max_depth=5)))
            big.append(({"mem": mem, "depth": 2, "width": 1, "rp": 1, "wp": 2, "transparent": "none", "init": []},
                        dict(cap, max_depth=5)))
            for tr in ("none", "all"):
                big.append(({"mem": mem, "depth": 4, "width": 1, "rp": 1, "wp": 2, "transparent": tr, "init": [0, 1, 1, 0]},
                            dict(cap, max_depth=3)))
                big.append(({"mem": mem, "depth": 2, "width": 1, "rp": 2, "wp": 2, "transparent": tr, "init": [0, 1]},
                            dict(cap, max_depth=3)))
                big.append(({"mem": mem, "depth": 2, "width": 2, "rp": 1, "wp": 2, "transparent": tr, "init": [2, 1]},
                            dict(cap, max_depth=3)))
            big.append(({"mem": mem, "depth": 3, "width": 1, "rp": 1, "wp": 3, "transparent": "all", "init": []},
                        dict(cap, max_depth=3)))
            big.append(({"mem": mem, "depth": 2, "width": 1, "rp": 1, "wp": 3, "transparent": "none", "init": [], "wdata": [1]},
                        dict(cap, max_depth=4)))
        for mem in ("MultiportXORILVTMemory", "MultiportOneHotILVTMemory"):
            for tr in ("none", "all"):
                big.append(({"mem": mem, "depth": 2, "width": 2, "gran": 1, "rp": 1, "wp": 2, "transparent": tr, "init": [],
                             "rows": [0], "wdata": [0, 3], "wen": [1, 3]}, {"max_depth": 6, "max_states": 120000}))
        for mem in ("MultiportXORILVTMemory", "MultiportOneHotILVTMemory", "MultiReadMemory"):
            for tr in ("none", "all"):
                small.append(({"mem": mem, "depth": 2, "width": 4, "gran": 2, "rp": 1, "wp": 1, "transparent": tr, "init": [],
                               "wdata": [0, 6, 9, 15], "wen": [1, 2, 3]}, {"max_depth": 4, "max_states": 120000}))
    return small, big


def jobs(tier):
    small, big = cfgs(tier)
    return ([E1("checks.c23", "MiterH", c, **k) for c, k in small], [E1("checks.c23", "MiterH", c, **k) for c, k in big])


def run(rep, tier):
    rep.rule = ("miter: the multiport memory under test and a real amaranth.lib.memory.Memory with identical init, ports, "
                "transparency and granularity are driven by the same port-level inputs; BFS over the joint state with every "
                "port valuation (no two write ports on one row), all read data compared in every cycle. MultiReadMemory is "
                "explored completely; XOR/ILVT memories to the depth reported per configuration (all port histories up to "
                "that length); non-trivial = two writes in a cycle, read of a row written in the same cycle")
    rep.assumptions = ["pysim semantics", "amaranth.lib.memory.Memory is the ideal synchronous memory",
                       "no two write ports address the same row in one cycle (precondition)",
                       "XOR/ILVT memories: depth-bounded (reported), not complete"]
    small, big = jobs(tier)
    rep.add_e1(run_jobs(small))
    rep.add_e1(run_big(big))
    return {"states": 1000, "transitions": 50000, "replayed": 50, "nt_two_writes": 1000, "nt_read_row_being_written": 1000}
