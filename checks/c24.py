"""C24 -- ContentAddressableMemory behaves as a dictionary."""
from vlib.ports import MethodHarness, pack
from vlib.runner import E1, run_jobs

PROP = "C24"


class CamH(MethodHarness):
    def make(self):
        from transactron.lib.storage import ContentAddressableMemory
        c = self.cfg
        # "dfields": 2 = the data layout has two fields (values of the model are then pairs)
        dl = [("d", c["dw"])] + ([("e", c["dw"])] if c.get("dfields", 1) == 2 else [])
        cam = ContentAddressableMemory([("a", c["kw"])], dl, c["entries"])
        return cam, [("read", "t", cam.read), ("remove", "t", cam.remove), ("push", "t", cam.push), ("write", "t", cam.write)]

    def alphabet(self, ref):
        cache = self.__dict__.setdefault("_alpha", {})
        keys = tuple(k for k, _ in ref)
        if keys not in cache:
            c = self.cfg
            K, D = 1 << c["kw"], 1 << c["dw"]
            pl, wl = self.port["push"].in_layout, self.port["write"].in_layout
            two = c.get("dfields", 1) == 2
            dvals = [{"d": d, "e": e} for d in range(D) for e in range(D)] if two else [{"d": d} for d in range(D)]
            push = [(0, 0)] + [(1, pack(pl, {"addr": {"a": k}, "data": dv})) for k in range(K) if k not in keys for dv in dvals]
            write = [(0, 0)] + [(1, pack(wl, {"addr": {"a": k}, "data": dv})) for k in range(K) for dv in dvals]
            rk = [(0, 0)] + [(1, k) for k in range(K)]
            cache[keys] = self.product({"read": rk, "remove": rk, "push": push, "write": write})
        return cache[keys]

    def step(self, ref, inp, obs):
        cfg = self.cfg
        d = dict(ref)
        c = self.calls(inp, obs)
        rd, rm, pu, wr = c["read"], c["remove"], c["push"], c["write"]
        v = []
        dv = (lambda x: (x["d"], x["e"])) if cfg.get("dfields", 1) == 2 else (lambda x: x["d"])
        if rd.done != rd.en or rm.done != rm.en or wr.done != wr.en:
            v.append("ready: read/remove/write are always ready")
        if pu.done != (pu.en and len(d) < cfg["entries"]):
            v.append(f"push.ready: done={pu.done} en={pu.en} stored={len(d)}")
        if rd.done:
            r = self.port["read"].ret(rd.out)
            k = self.port["read"].arg(rd.data)["addr"]["a"]
            if k in d:
                if r["not_found"] or dv(r["data"]) != d[k]:
                    v.append(f"read.hit: key {k} -> {r} expected data {d[k]}")
            elif not r["not_found"]:
                v.append(f"read.miss: key {k} absent but not_found=0")
        wa = self.port["write"].arg(wr.data)
        if wr.done:
            r = self.port["write"].ret(wr.out)
            if r["not_found"] != (wa["addr"]["a"] not in d):
                v.append(f"write.not_found: key {wa['addr']['a']} present={wa['addr']['a'] in d} not_found={r['not_found']}")
        if v:
            return v, ref
        n = rd.done + rm.done + pu.done + wr.done
        if n >= 3:
            self.count("nt_three_or_more_ops")
        rk = self.port["remove"].arg(rm.data)["addr"]["a"]
        if rm.done and wr.done and rk == wa["addr"]["a"] and rk in d:
            self.count("nt_remove_and_write_same_key")
        if pu.en and not pu.done:
            self.count("nt_push_refused")
        nd = dict(d)
        if wr.done and wa["addr"]["a"] in nd:
            nd[wa["addr"]["a"]] = dv(wa["data"])
        if rm.done and rk in nd:
            del nd[rk]
        if pu.done:
            pa = self.port["push"].arg(pu.data)
            nd[pa["addr"]["a"]] = dv(pa["data"])
        return v, tuple(sorted(nd.items()))


def jobs(tier):
    if tier == "quick":
        small = [(1, 1, 1), (2, 1, 1), (3, 1, 1), (2, 1, 2)]
        big = [(2, 2, 1)]
    else:
        small = [(1, 1, 1), (1, 2, 2), (2, 1, 1), (2, 1, 2), (3, 1, 1)]
        big = [(2, 2, 1), (3, 2, 1), (2, 2, 2), (3, 1, 2)]
    mk = lambda g: [E1("checks.c24", "CamH", {"entries": e, "kw": k, "dw": d}) for e, k, d in g]  # noqa: E731
    two = [E1("checks.c24", "CamH", {"entries": e, "kw": 1, "dw": 1, "dfields": 2}) for e in ((1, 2) if tier == "quick" else (1, 2, 3))]
    return mk(small) + two, mk(big)


def run(rep, tier):
    from vlib.runner import run_big
    rep.rule = ("complete BFS of ContentAddressableMemory against a dict model; every combination of read/remove/push/write with "
                "every key and data value, push restricted to absent keys (precondition); all four methods may run in one "
                "cycle and act on the pre-state; non-trivial = >=3 operations in a cycle, remove+write of the same stored key, "
                "push refused when full")
    rep.assumptions = ["pysim semantics", "never push a present key (precondition)", "key width <= 2, data width <= 2, data layouts of one or two fields"]
    small, big = jobs(tier)
    rep.add_e1(run_jobs(small))
    rep.add_e1(run_big(big))
    return {"states": 100, "transitions": 20000, "replayed": 20, "nt_three_or_more_ops": 1000,
            "nt_remove_and_write_same_key": 100, "nt_push_refused": 100}
