"""C25 -- PriorityEncoderAllocator never double-allocates."""
import itertools
from vlib.ports import MethodHarness
from vlib.runner import E1, run_jobs

PROP = "C25"


class PEAllocH(MethodHarness):
    def nonexclusive_ports(self):
        return {"clear"}      # PriorityEncoderAllocator.peek is an ordinary (exclusive) method

    def make(self):
        from transactron.lib.allocators import PriorityEncoderAllocator
        c = self.cfg
        a = PriorityEncoderAllocator(c["entries"], c["alloc_ways"], c["free_ways"], init=c.get("init", -1))
        ms = [(f"alloc{i}", "t", a.alloc[i]) for i in range(c["alloc_ways"])]
        ms += [(f"free{i}", "t", a.free[i]) for i in range(c["free_ways"])]
        ms += [("peek", "t", a.peek), ("replace", "t", a.replace), ("clear", "t", a.clear)]
        return a, ms

    def init(self):
        E = self.cfg["entries"]
        return self.cfg.get("init", -1) & ((1 << E) - 1)  # free mask

    def alphabet(self, mask):
        cache = self.__dict__.setdefault("_alpha", {})
        if mask not in cache:
            c = self.cfg
            E = c["entries"]
            allocated = [i for i in range(E) if not (mask >> i) & 1]
            # free ways: distinct allocated identifiers (or idle)
            fw = c["free_ways"]
            free_opts = []
            for combo in itertools.product([None] + allocated, repeat=fw):
                ids = [x for x in combo if x is not None]
                if len(set(ids)) == len(ids):
                    free_opts.append(combo)
            rep_masks = range(1 << E) if c.get("all_replace", True) else (0, (1 << E) - 1, 0b101 & ((1 << E) - 1))
            rep_opts = [(0, 0)] + [(1, mk) for mk in rep_masks]
            base = {f"alloc{i}": [(0, 0), (1, 0)] for i in range(c["alloc_ways"])}
            out = []
            for fo in free_opts:
                ch = dict(base)
                for i, x in enumerate(fo):
                    ch[f"free{i}"] = [(0, 0)] if x is None else [(1, x)]
                ch["peek"] = [(1, 0)] if c.get("peek_always", True) else [(0, 0), (1, 0)]
                ch["replace"] = rep_opts
                ch["clear"] = [(0, 0), (1, 0)]
                out += self.product(ch)
            cache[mask] = out
        return cache[mask]

    def step(self, mask, inp, obs):
        cfg = self.cfg
        E = cfg["entries"]
        full = (1 << E) - 1
        c = self.calls(inp, obs)
        v = []
        nfree = bin(mask).count("1")
        got = []
        for i in range(cfg["alloc_ways"]):
            a = c[f"alloc{i}"]
            if a.done != (a.en and nfree >= i + 1):
                v.append(f"alloc.ready: way {i} done={a.done} en={a.en} free={nfree}")
            if a.done:
                ident = a.out
                if ident >= E or not (mask >> ident) & 1:
                    v.append(f"alloc.double: way {i} returned {ident} which is allocated (free mask {mask:#b})")
                if ident in got:
                    v.append(f"alloc.distinct: identifier {ident} returned twice in one cycle")
                got.append(ident)
        freed = []
        for i in range(cfg["free_ways"]):
            f = c[f"free{i}"]
            if f.done != f.en:
                v.append(f"free.ready: way {i} always ready")
            if f.done:
                freed.append(f.data)
        pk, rp, cl = c["peek"], c["replace"], c["clear"]
        if pk.done != pk.en:
            v.append("peek.ready: always ready")
        if pk.done and pk.out != mask:
            v.append(f"peek.mask: {pk.out:#b} != {mask:#b}")
        if rp.en and cl.en:
            if rp.done + cl.done != 1:
                v.append(f"replace_clear.arbitration: replace.done={rp.done} clear.done={cl.done}")
        else:
            if rp.done != rp.en or cl.done != cl.en:
                v.append(f"replace_clear.ready: replace {rp.en}->{rp.done} clear {cl.en}->{cl.done}")
        if v:
            return v, mask
        if len(got) >= 2:
            self.count("nt_multi_alloc")
        if got and freed:
            self.count("nt_alloc_and_free")
        if (rp.done or cl.done) and (got or freed):
            self.count("nt_replace_with_other")
        nm = mask
        for g in got:
            nm &= ~(1 << g)
        for f in freed:
            nm |= 1 << f
        if rp.done:
            nm = rp.data & full
        if cl.done:
            nm = cfg.get("init", -1) & full
        return v, nm


def jobs(tier):
    js = []
    if tier == "quick":
        grid = [(2, 1, 1, -1), (2, 2, 1, -1), (3, 1, 1, -1), (3, 2, 1, -1), (3, 1, 2, -1), (3, 2, 2, 0b010), (4, 2, 1, 0b0110),
                (2, 1, 1, -2), (3, 2, 1, ~0b101), (3, 1, 1, 0),
                # more ways than identifiers: the surplus ways are never ready
                (1, 2, 1, -1), (2, 3, 1, -1), (1, 1, 2, -1)]
        for e, a, f, init in grid:
            js.append(E1("checks.c25", "PEAllocH", {"entries": e, "alloc_ways": a, "free_ways": f, "init": init,
                                                    "all_replace": e <= 3}))
    else:
        for e in (1, 2, 3, 4):
            for a in (1, 2, 3):
                for f in (1, 2):
                    for init in (-1, 0b0110, 0, -2, ~0b0101):
                        if (a <= e and f <= e) or (init == -1 and e <= 2):   # incl. more ways than identifiers
                            js.append(E1("checks.c25", "PEAllocH", {"entries": e, "alloc_ways": a, "free_ways": f,
                                                                    "init": init, "peek_always": e >= 4}))
        js.append(E1("checks.c25", "PEAllocH", {"entries": 5, "alloc_ways": 2, "free_ways": 2, "init": -1, "all_replace": False}))
    return js


def run(rep, tier):
    rep.rule = ("complete BFS of PriorityEncoderAllocator (entries<=4, up to 2x2 ways quick / 3x2 thorough, all-free and "
                "partial init) against a free-mask model; alphabet = every combination of alloc enables, distinct "
                "allocated identifiers on the free ways (precondition), every replace mask, clear, peek; non-trivial = "
                ">=2 identifiers allocated in one cycle, alloc+free together, replace/clear together with alloc/free")
    rep.assumptions = ["pysim semantics", "free is only called with allocated, pairwise distinct identifiers (precondition)",
                       "replace and clear conflict (both call replace): either may win, exactly one runs"]
    rep.add_e1(run_jobs(jobs(tier)))
    return {"states": 30, "transitions": 5000, "replayed": 10, "nt_multi_alloc": 100, "nt_alloc_and_free": 100,
            "nt_replace_with_other": 100}
