"""C26 -- PreservedOrderAllocator tracks allocation order."""
from vlib.ports import MethodHarness
from vlib.runner import E1, run_jobs

PROP = "C26"


class POAllocH(MethodHarness):
    def make(self):
        from transactron.lib.allocators import PreservedOrderAllocator
        a = PreservedOrderAllocator(self.cfg["entries"])
        return a, [("alloc", "t", a.alloc), ("free", "t", a.free), ("free_idx", "t", a.free_idx),
                   ("order", "t", a.order), ("clear", "t", a.clear)]

    def init(self):
        return ((), True)  # allocated identifiers oldest->newest, "fresh" flag (initial / just cleared)

    def alphabet(self, ref):
        L, _ = ref
        cache = self.__dict__.setdefault("_alpha", {})
        if L not in cache:
            ch = {"alloc": [(0, 0), (1, 0)],
                  "free": [(0, 0)] + [(1, x) for x in L],
                  "free_idx": [(0, 0)] + [(1, i) for i in range(len(L))],
                  "order": [(1, 0)] if self.cfg.get("order_always", True) else [(0, 0), (1, 0)],
                  "clear": [(0, 0), (1, 0)]}
            cache[L] = self.product(ch)
        return cache[L]

    def step(self, ref, inp, obs):
        E = self.cfg["entries"]
        L, fresh = ref
        c = self.calls(inp, obs)
        al, fr, fi, od, cl = c["alloc"], c["free"], c["free_idx"], c["order"], c["clear"]
        v = []
        if al.done != (al.en and len(L) < E):
            v.append(f"alloc.ready: done={al.done} en={al.en} used={len(L)}")
        if al.done and (al.out in L or al.out >= E):
            v.append(f"alloc.double: returned {al.out}, allocated {L}")
        if fr.en and fi.en:
            if fr.done + fi.done != 1:
                v.append(f"free.arbitration: free.done={fr.done} free_idx.done={fi.done}")
        elif fr.done != fr.en or fi.done != fi.en:
            v.append(f"free.ready: free {fr.en}->{fr.done} free_idx {fi.en}->{fi.done}")
        if od.done != od.en or cl.done != cl.en:
            v.append("order_clear.ready: always ready")
        if od.done:
            r = self.port["order"].ret(od.out)
            if r["used"] != len(L):
                v.append(f"order.used: {r['used']} != {len(L)}")
            if sorted(r["order"]) != list(range(E)):
                v.append(f"order.permutation: {r['order']}")
            elif tuple(r["order"][: len(L)]) != L:
                v.append(f"order.prefix: {r['order']} expected prefix {L}")
            if fresh and r["order"] != list(range(E)):
                v.append(f"order.initial: {r['order']} is not the initial permutation after reset/clear")
        if v:
            return v, ref
        if al.done and (fr.done or fi.done):
            self.count("nt_alloc_and_free")
        if (fr.done and L.index(fr.data) < len(L) - 1) or (fi.done and fi.data < len(L) - 1):
            self.count("nt_free_in_middle")
        if cl.done and (al.done or fr.done or fi.done):
            self.count("nt_clear_with_other")
        nl = list(L)
        gone = None
        if fr.done:
            gone = fr.data
        if fi.done:
            gone = L[fi.data]
        if al.done:
            nl.append(al.out)
        if gone is not None:
            nl.remove(gone)
        nfresh = False
        if cl.done:
            nl = []
            nfresh = True
        elif fresh and not (al.done or fr.done or fi.done):
            nfresh = True
        return v, (tuple(nl), nfresh)


def jobs(tier):
    es = (1, 2, 3, 4) if tier == "quick" else (1, 2, 3, 4, 5)
    return [E1("checks.c26", "POAllocH", {"entries": e, "order_always": tier == "quick" or e >= 4}) for e in es]


def run(rep, tier):
    rep.rule = ("complete BFS of PreservedOrderAllocator against an ordered-list model (the identifier alloc returns is "
                "taken from the implementation and checked to be free); free only with allocated identifiers, free_idx "
                "only below the used count (preconditions); order() observed in every cycle; non-trivial = alloc+free "
                "in one cycle, freeing a non-newest identifier, clear with another call")
    rep.assumptions = ["pysim semantics", "free/free_idx preconditions as stated in the property",
                       "free and free_idx conflict (free calls free_idx): exactly one runs when both are requested"]
    rep.add_e1(run_jobs(jobs(tier)))
    return {"states": 50, "transitions": 1000, "replayed": 10, "nt_alloc_and_free": 50, "nt_free_in_middle": 50,
            "nt_clear_with_other": 50}
