"""C27 -- CircularAllocator hands out identifiers in ring order."""
from vlib.ports import MethodHarness, pack
from vlib.runner import E1, run_jobs

PROP = "C27"


class CircH(MethodHarness):
    def make(self):
        from transactron.lib.allocators import CircularAllocator
        c = self.cfg
        a = CircularAllocator(c["entries"], c["max_alloc"], c["max_free"], with_validate_arguments=c.get("validate", True))
        return (a, [("alloc", "t", a.alloc), ("free", "t", a.free), ("clear", "t", a.clear)], [],
                [("start_idx", a.start_idx), ("end_idx", a.end_idx), ("allocated", a.allocated)])

    def init(self):
        return (0, 0)  # start, allocated

    def alphabet(self, ref):
        c = self.cfg
        start, n = ref
        key = n if not c.get("validate", True) else -1
        cache = self.__dict__.setdefault("_alpha", {})
        if key not in cache:
            ac = [(0, 0)] + [(1, k) for k in range(c["max_alloc"] + 1)]
            fc = [(0, 0)] + [(1, k) for k in range(c["max_free"] + 1)]
            if not c.get("reduced", True):
                ac += [(0, k) for k in range(1, c["max_alloc"] + 1)]
                fc += [(0, k) for k in range(1, c["max_free"] + 1)]
            if key >= 0:  # without validation the caller must not overflow / underflow
                ac = [(e, k) for e, k in ac if n + k <= c["entries"]]
                fc = [(e, k) for e, k in fc if k <= n]
            cache[key] = self.product({"alloc": ac, "free": fc, "clear": [(0, 0), (1, 0)]})
        return cache[key]

    def step(self, ref, inp, obs):
        cfg = self.cfg
        E = cfg["entries"]
        start, n = ref
        end = (start + n) % E
        c = self.calls(inp, obs)
        al, fr, cl = c["alloc"], c["free"], c["clear"]
        v = []
        if self.xobs(obs, "allocated") != n:
            v.append(f"allocated: {self.xobs(obs, 'allocated')} != {n}")
        if self.xobs(obs, "start_idx") != start:
            v.append(f"start_idx: {self.xobs(obs, 'start_idx')} != {start}")
        if self.xobs(obs, "end_idx") != end:
            v.append(f"end_idx: {self.xobs(obs, 'end_idx')} != {end}")
        ac, fc = al.data, fr.data
        al_ok = al.en and n != E and n + ac <= E
        fr_ok = fr.en and n != 0 and fc <= n
        if al.done and n + ac > E:
            v.append(f"alloc.overflow: accepted count={ac} with allocated={n}")
        elif al.done != al_ok:
            v.append(f"alloc.ready: done={al.done} en={al.en} count={ac} allocated={n}")
        if fr.done and fc > n:
            v.append(f"free.underflow: accepted count={fc} with allocated={n}")
        elif fr.done != fr_ok:
            v.append(f"free.ready: done={fr.done} en={fr.en} count={fc} allocated={n}")
        if cl.done != cl.en:
            v.append("clear.ready: always ready")
        if al.done:
            r = self.port["alloc"].ret(al.out)
            for i in range(ac):
                if r["idents"][i] != (end + i) % E:
                    v.append(f"alloc.idents: idents[{i}]={r['idents'][i]} expected {(end + i) % E}")
            if r["new_end_idx"] != (end + ac) % E:
                v.append(f"alloc.new_end_idx: {r['new_end_idx']} expected {(end + ac) % E}")
        if fr.done:
            r = self.port["free"].ret(fr.out)
            for i in range(fc):
                if r["idents"][i] != (start + i) % E:
                    v.append(f"free.idents: idents[{i}]={r['idents'][i]} expected {(start + i) % E}")
            if r["new_start_idx"] != (start + fc) % E:
                v.append(f"free.new_start_idx: {r['new_start_idx']} expected {(start + fc) % E}")
        if v:
            return v, ref
        if al.done and fr.done:
            self.count("nt_alloc_and_free")
        if al.done and (end + ac) >= E and ac:
            self.count("nt_wrap")
        if (al.en and not al.done and n != E) or (fr.en and not fr.done and n != 0):
            self.count("nt_rejected_by_validation")
        if cl.done and (al.done or fr.done):
            self.count("nt_clear_with_other")
        if cl.done:
            return v, (0, 0)
        ns, nn = start, n
        if fr.done:
            ns, nn = (start + fc) % E, nn - fc
        if al.done:
            nn += ac
        return v, (ns, nn)


def jobs(tier):
    js = []
    if tier == "quick":
        grid = [(e, a, f) for e in (2, 3, 4, 5) for a in (1, 2) for f in (1, 2) if a <= e and f <= e]
        grid += [(3, 3, 1), (4, 3, 3), (5, 3, 2)]
        for e, a, f in grid:
            js.append(E1("checks.c27", "CircH", {"entries": e, "max_alloc": a, "max_free": f}))
        js.append(E1("checks.c27", "CircH", {"entries": 3, "max_alloc": 2, "max_free": 2, "validate": False}))
        js.append(E1("checks.c27", "CircH", {"entries": 4, "max_alloc": 2, "max_free": 1, "validate": False}))
    else:
        for e in (1, 2, 3, 4, 5, 6, 7, 8):
            for a in (1, 2, 3, 4):
                for f in (1, 2, 3, 4):
                    if a <= e and f <= e:
                        js.append(E1("checks.c27", "CircH", {"entries": e, "max_alloc": a, "max_free": f, "reduced": False}))
                        if e <= 5:
                            js.append(E1("checks.c27", "CircH", {"entries": e, "max_alloc": a, "max_free": f,
                                                                 "validate": False, "reduced": False}))
    return js


def run(rep, tier):
    rep.rule = ("complete BFS of CircularAllocator behind AdapterTrans for alloc/free/clear against a (start, count) ring "
                "model; count arguments range over the declared range(max+1); start_idx/end_idx/allocated registers "
                "compared with the model in every state; non-trivial = alloc+free together, index wrap-around, calls "
                "rejected by argument validation, clear with another call")
    rep.assumptions = ["pysim semantics", "count arguments within the declared range(max+1)",
                       "without with_validate_arguments only non-overflowing calls are issued (documented precondition)"]
    rep.add_e1(run_jobs(jobs(tier)))
    return {"states": 100, "transitions": 2000, "replayed": 20, "nt_alloc_and_free": 50, "nt_wrap": 50,
            "nt_rejected_by_validation": 50, "nt_clear_with_other": 50}
