"""C28 -- PipelineBuilder pipelines are ordered, lossless and compute the composed stages.

Bounded-exhaustive enumeration of pipeline shapes (E2 style) x complete BFS of each elaborated pipeline (E1) in lock-step with
an observational monitor: one queue of in-flight items per link; a node 'fires' in the cycles in which its body demonstrably runs
(source/sink/extra-source: the adapter's done pin; function stage: a comb witness placed inside the stage function; called
method: the external method's adapter; no_dependency node: the run of the decoupling pipe's read method)."""
import itertools

from amaranth import Signal, Elaboratable
from vlib.ports import MethodHarness, opts
from vlib.runner import E1, run_jobs

PROP = "C28"

MIDS = ["fn_over", "fn_new", "call", "src2_dep", "src2_nodep"]
# fields of an item: a (from the source), b (from the extra source), c (computed by fn_new)


def fields_after(mids):
    """live fields offered to the sink (the sink consumes everything)"""
    f = ["a"]
    for k in mids:
        if k == "fn_sink":
            f.remove("a")
        if k == "fn_gen" and "a" not in f:
            f.append("a")
        if k in ("src2_dep", "src2_nodep") and "b" not in f:
            f.append("b")
        if k == "fn_new" and "c" not in f:
            f.append("c")
    return f


class PipeDut(Elaboratable):
    def __init__(self, cfg):
        from transactron import Method
        self.cfg = cfg
        mids = cfg["mids"]
        self.write = Method(i=[("a", 1)])
        self.read = Method(o=[(f, 1) for f in fields_after(mids)])
        self.clear = Method()
        self.xclear = Method()
        self.ext = Method(i=[("a", 1)], o=[("a", 1)]) if "call" in mids else None
        self.write2 = Method(i=[("b", 1)]) if any(k.startswith("src2") for k in mids) else None
        self.ready = [Signal(name=f"ready{j}") for j in range(len(mids))] if cfg.get("ready") else []
        self.wit = {j: Signal(name=f"wit{j}") for j, k in enumerate(mids) if k.startswith("fn")}
        self.seen = {j: Signal(name=f"seen{j}") for j, k in enumerate(mids) if k.startswith("fn")}
        self.nodep_fire = {j: Signal(name=f"nodep_fire{j}") for j, k in enumerate(mids) if k == "src2_nodep"}

    def elaborate(self, platform):
        from transactron import TModule
        from transactron.lib.pipeline import PipelineBuilder
        cfg, dut = self.cfg, self
        mids, links = cfg["mids"], cfg["links"]
        m = TModule()

        class RecordingPB(PipelineBuilder):
            def elaborate(pb, platform):
                pm = super().elaborate(platform)
                for j, sig in dut.nodep_fire.items():
                    nodep = pm.submodules[f"{j + 1}_nodep"]
                    pm.d.top_comb += sig.eq(nodep.read.run)
                return pm

        # a point with no live signals (after "fn_sink", which consumes `a` and produces nothing) needs allow_empty
        m.submodules.pipeline = p = RecordingPB(allow_empty="fn_sink" in mids)
        p.add_external(self.write)

        def link(i):
            if links[i] != "pipe":
                p.fifo(int(links[i][4:]))

        for j, k in enumerate(mids):
            link(j)
            kw = {"ready": self.ready[j]} if self.ready else {}
            if k in ("fn_over", "fn_new"):
                def mk(j, field):
                    def fn(a):
                        m.d.comb += self.wit[j].eq(1)
                        m.d.top_comb += self.seen[j].eq(a)
                        return {field: ~a}
                    return fn
                field = "a" if k == "fn_over" else "c"
                p.stage(m, o=[(field, 1)], **kw)(mk(j, field))
            elif k == "fn_sink":
                def mk_sink(j):
                    def fn(a):
                        m.d.comb += self.wit[j].eq(1)
                        m.d.top_comb += self.seen[j].eq(a)
                    return fn
                p.stage(m, **kw)(mk_sink(j))
            elif k == "fn_gen":
                def mk_gen(j):
                    def fn():
                        m.d.comb += self.wit[j].eq(1)
                        return {"a": 1}
                    return fn
                p.stage(m, o=[("a", 1)], **kw)(mk_gen(j))
            elif k == "call":
                p.call_method(self.ext, **kw)
            elif k == "src2_dep":
                p.add_external(self.write2, **kw)
            elif k == "src2_nodep":
                p.add_external(self.write2, no_dependency=True, **kw)
        link(len(mids))
        p.add_external(self.read)
        p.add_external_clear(self.xclear)
        self.clear.provide(p.clear)
        return m


class PipeH(MethodHarness):
    """model: (tuple of link queues, queue of the no_dependency decoupling pipe); an item is a tuple (a, b, c)"""

    def make(self):
        d = PipeDut(self.cfg)
        self.d = d
        ms = [("write", "t", d.write), ("read", "t", d.read)]
        if self.cfg.get("clear", True):
            ms += [("clear", "t", d.clear)]
        ms += [("xclear", "a", d.xclear)]
        if d.ext is not None:
            ms.append(("ext", "a", d.ext))
        if d.write2 is not None:
            ms.append(("write2", "t", d.write2))
        xin = [(f"ready{j}", s) for j, s in enumerate(d.ready)]
        xobs = [(f"wit{j}", s) for j, s in d.wit.items()] + [(f"seen{j}", s) for j, s in d.seen.items()]
        xobs += [(f"nodep_fire{j}", s) for j, s in d.nodep_fire.items()]
        return d, ms, xin, xobs

    def init(self):
        return (tuple(() for _ in range(len(self.cfg["mids"]) + 1)), ())

    def alphabet(self, ref):
        if not hasattr(self, "_alpha"):
            ch = {"write": opts(1), "read": opts(0), "xclear": [(1, 0)]}
            if "clear" in self.port:
                ch["clear"] = opts(0)
            if "ext" in self.port:
                ch["ext"] = opts(1)
            if "write2" in self.port:
                ch["write2"] = opts(1)
            ex = {f"ready{j}": [0, 1] for j in range(len(self.d.ready))}
            self._alpha = self.product(ch, ex)
        return self._alpha

    def cap(self, i):
        lk = self.cfg["links"][i]
        return 1 if lk == "pipe" else int(lk[4:])

    def step(self, ref, inp, obs):
        cfg = self.cfg
        mids = cfg["mids"]
        n = len(mids)
        L, N = ref
        c = self.calls(inp, obs)
        V = []
        out_fields = fields_after(mids)
        newL = [list(q) for q in L]
        newN = list(N)
        popped = [False] * (n + 1)

        def take(i, who):
            """node after link i fires: it consumes the head of link i (pre-state)"""
            if not L[i]:
                V.append(f"{who}.without_item: fired although no item is waiting in front of it")
                return None
            popped[i] = True
            return L[i][0]

        # source
        wr = c["write"]
        if wr.done and not wr.en:
            V.append("source.spurious")
        pushes = [None] * (n + 1)
        if wr.done:
            pushes[0] = (wr.data, None, None)
        # middle nodes
        for j, k in enumerate(mids):
            rdy = self.xin(inp, f"ready{j}") if self.d.ready else 1
            fired, item = False, None
            if k.startswith("fn"):
                fired = bool(self.xobs(obs, f"wit{j}"))
                if fired:
                    item = take(j, f"stage{j}")
                    if item is not None and k == "fn_gen":
                        item = (1, item[1], item[2])
                    elif item is not None:
                        if self.xobs(obs, f"seen{j}") != item[0]:
                            V.append(f"stage{j}.input: the stage function saw a={self.xobs(obs, f'seen{j}')}, the oldest item "
                                     f"waiting in front of it has a={item[0]}")
                        item = {"fn_over": (1 - item[0], item[1], item[2]), "fn_new": (item[0], item[1], 1 - item[0]),
                                "fn_sink": (None, item[1], item[2])}[k]
            elif k == "call":
                e = c["ext"]
                fired = bool(e.done)
                if fired:
                    if not e.en:
                        V.append("called_method.spurious: called while not ready")
                    item = take(j, f"called_method{j}")
                    if item is not None:
                        if e.out != item[0]:
                            V.append(f"called_method{j}.argument: called with a={e.out}, oldest waiting item has a={item[0]}")
                        item = (e.data, item[1], item[2])
            elif k == "src2_dep":
                w2 = c["write2"]
                fired = bool(w2.done)
                if fired:
                    item = take(j, f"extra_source{j}")
                    if item is not None:
                        item = (item[0], w2.data, item[2])
            elif k == "src2_nodep":
                w2 = c["write2"]
                if w2.done:
                    newN.append(w2.data)
                fired = bool(self.xobs(obs, f"nodep_fire{j}"))
                if fired:
                    if not N:
                        V.append(f"nodep{j}.without_value: merged although nothing was written to the decoupled node")
                        item = None
                    else:
                        item = take(j, f"nodep{j}")
                        if item is not None:
                            item = (item[0], N[0], item[2])
                        newN.pop(0)
            if fired and not rdy:
                V.append(f"node{j + 1}.ready: fired while its ready condition is false")
            if fired and item is not None:
                pushes[j + 1] = item
        # sink
        rd = c["read"]
        if rd.done:
            if not rd.en:
                V.append("sink.spurious")
            item = take(n, "sink")
            if item is not None:
                exp = 0
                for bit, f in enumerate(out_fields):
                    v = item["abc".index(f)]
                    exp |= (v or 0) << bit
                if rd.out != exp:
                    V.append(f"sink.data: read returned {self.port['read'].ret(rd.out)}, the oldest item is "
                             f"{dict(zip('abc', item))}")
        elif rd.en and L[n]:
            V.append("sink.progress: an item is waiting at the end of the pipeline but read did not run")
        if wr.en and not wr.done and not L[0]:
            V.append("source.progress: the first link is empty but write did not run")
        if V:
            return V, ref
        for i in range(n + 1):
            if popped[i]:
                newL[i].pop(0)
            if pushes[i] is not None:
                newL[i].append(pushes[i])
            if len(newL[i]) > self.cap(i):
                return [f"link{i}.overrun: {len(newL[i])} items in a link that holds {self.cap(i)} (an item would be lost)"], ref
        if len(newN) > 1:
            return ["nodep.overrun: two values waiting in the decoupling pipe"], ref
        cl = c.get("clear")
        xc = c["xclear"]
        if (cl.done if cl else 0) != xc.done:
            V.append(f"clear.external: clear ran={cl.done if cl else 0} but the external clear method ran={xc.done}")
            return V, ref
        if cl is not None and cl.done != cl.en:
            return ["clear.ready: clear must always be accepted"], ref
        if rd.done:
            self.count("nt_item_left")
        if sum(1 for p_ in popped if p_) >= 2:
            self.count("nt_two_nodes_fire")
        if cl is not None and cl.done:
            if any(newL[i] for i in range(n + 1)) or newN:
                self.count("nt_clear_discards")
            newL = [[] for _ in range(n + 1)]
            newN = []
        return V, (tuple(tuple(q) for q in newL), tuple(newN))


def shapes(tier):
    q = tier == "quick"
    out = []
    lk = ["pipe", "fifo1", "fifo2"]
    # no middle node
    for l0 in lk:
        out.append({"mids": [], "links": [l0]})
    # one middle node: every kind x every link pair x stage ready
    for k in MIDS:
        for l0, l1 in itertools.product(lk, repeat=2):
            for rdy in (False, True):
                if q and rdy and (l0, l1) != ("pipe", "pipe"):
                    continue
                if q and "fifo2" in (l0, l1) and (l0, l1) not in (("fifo2", "pipe"), ("pipe", "fifo2")):
                    continue
                out.append({"mids": [k], "links": [l0, l1], "ready": rdy})
    # two middle nodes
    for k1, k2 in itertools.product(MIDS, repeat=2):
        if k1.startswith("src2") and k2.startswith("src2"):
            continue
        if [k1, k2].count("call") > 1 or [k1, k2].count("fn_new") > 1:
            continue        # (a second fn_new would regenerate field c while the first one is still unused: rejected shape)
        linksets = [["pipe"] * 3] if q else [["pipe"] * 3, ["fifo1", "pipe", "pipe"], ["pipe", "fifo1", "fifo2"],
                                             ["fifo2", "fifo1", "pipe"]]
        for ls in linksets:
            out.append({"mids": [k1, k2], "links": ls})
    # a point without live signals (allow_empty): a stage consuming everything, then nodes that need nothing from the item
    for tail in (["fn_gen"], ["src2_dep"], ["src2_nodep"], ["fn_gen", "fn_over"], ["src2_nodep", "fn_gen"]):
        for ls in ([["pipe"] * (len(tail) + 2)] if q else [["pipe"] * (len(tail) + 2), ["pipe", "fifo2"] + ["pipe"] * len(tail)]):
            out.append({"mids": ["fn_sink"] + tail, "links": ls})
            if len(tail) == 1:
                out.append({"mids": ["fn_sink"] + tail, "links": ls, "ready": True})
    if not q:
        for ks in itertools.product(["fn_over", "fn_new", "src2_nodep", "call"], repeat=3):
            if list(ks).count("src2_nodep") > 1 or list(ks).count("call") > 1 or list(ks).count("fn_new") > 1:
                continue
            out.append({"mids": list(ks), "links": ["pipe"] * 4})
    return out


def jobs(tier):
    # the state cap bounds the few shapes with two deep FIFO links (reported as not exhaustive when hit)
    return [E1("checks.c28", "PipeH", s, max_states=60000 if tier == "quick" else 12000, replay_cap=8) for s in shapes(tier)]


def run(rep, tier):
    rep.rule = ("every pipeline shape of a bounded grammar (source external, 0-2 (3 thorough) middle nodes from {function stage "
                "overwriting a field, function stage adding a field, called external method, extra source with and without "
                "no_dependency; with allow_empty also a stage consuming every field followed by an input-less stage / extra source}, sink external; every link a Pipe or a FIFO of depth 1-2; optional per-stage ready input; an "
                "external clear method) is built with the real PipelineBuilder and explored completely: every valuation of "
                "source/sink/extra-source enables and data, called-method readiness and result, stage readiness and clear in "
                "every reachable state, in lock-step with a monitor holding one queue of in-flight items per link: a node fires "
                "only with an item in front of it, sees exactly the oldest item's fields, every item passes each node once and in "
                "order, the sink returns the composed fields, no link ever holds more than its capacity, clear empties every "
                "link and calls the external clear method, and an item waiting at the sink is delivered when read is called")
    rep.assumptions = ["pysim semantics", "1-bit fields a, b, c", "shapes bounded as listed"]
    rep.add_e1(run_jobs(jobs(tier)))
    rep.per_config = rep.per_config[:60]
    return {"states": 2000, "transitions": 100000, "replayed": 100, "nt_item_left": 5000, "nt_two_nodes_fire": 2000,
            "nt_clear_discards": 1000}
