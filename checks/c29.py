"""C29 -- stream adapters obey the ready/valid protocol (complete BFS)."""
from amaranth import Module, Signal
from amaranth.lib import stream, wiring
from amaranth.lib.wiring import In, Out

from vlib.ports import MethodHarness, opts
from vlib.runner import E1, run_jobs

PROP = "C29"


class SourceH(MethodHarness):
    """model = (tuple of written, not yet transferred items, payload that is being stalled or None)"""

    def make(self):
        from transactron.lib.stream import StreamSource
        s = StreamSource(self.cfg["width"])
        return s, [("write", "t", s.write)], [("o.ready", s.o.ready)], [("o.valid", s.o.valid), ("o.payload", s.o.payload)]

    def init(self):
        return ((), None)

    def alphabet(self, ref):
        if not hasattr(self, "_alpha"):
            self._alpha = self.product({"write": opts(self.cfg["width"], reduced=False)}, {"o.ready": [0, 1]})
        return self._alpha

    def step(self, ref, inp, obs):
        q, stalled = ref
        wr = self.calls(inp, obs)["write"]
        ready = self.xin(inp, "o.ready")
        valid, payload = self.xobs(obs, "o.valid"), self.xobs(obs, "o.payload")
        v = []
        if wr.done and not wr.en:
            v.append("write.spurious: write ran without being called")
        if valid != (1 if q else 0):
            v.append(f"valid: valid={valid} while {len(q)} written item(s) are waiting")
        if valid and q and payload != q[0]:
            v.append(f"payload.order: payload={payload}, oldest written item is {q[0]}")
        if stalled is not None and (not valid or payload != stalled):
            v.append(f"stable: valid/payload changed while stalled (was {stalled}, now valid={valid} payload={payload})")
        if wr.en and not q and not wr.done:
            v.append("write.progress: write refused although nothing is buffered")
        if v:
            return v, ref
        nq = q
        transfer = valid and ready
        if transfer:
            nq = nq[1:]
            self.count("nt_transfer")
        if wr.done:
            nq = nq + (wr.data,)
            if transfer:
                self.count("nt_write_while_transfer")
        if len(nq) > 3:
            v.append("write.overrun: more than 3 items buffered (an item would be lost)")
            return v, ref
        if valid and not ready:
            self.count("nt_stalled")
            if wr.en and not wr.done:
                self.count("nt_write_refused_while_stalled")
        return v, (nq, payload if (valid and not ready) else None)


class SinkH(MethodHarness):
    def make(self):
        from transactron.lib.stream import StreamSink
        s = StreamSink(self.cfg["width"])
        # two callers of read (one transferred payload must be consumed by exactly one of them), two callers of peek
        return s, [("read", "t", s.read), ("read2", "t", s.read), ("peek", "t", s.peek), ("peek2", "t", s.peek)], \
            [("i.valid", s.i.valid), ("i.payload", s.i.payload)], [("i.ready", s.i.ready)]

    def alphabet(self, ref):
        if not hasattr(self, "_alpha"):
            self._alpha = self.product({"read": opts(0), "read2": opts(0), "peek": opts(0), "peek2": opts(0)},
                                       {"i.valid": [0, 1], "i.payload": list(range(1 << self.cfg["width"]))})
        return self._alpha

    def step(self, ref, inp, obs):
        c = self.calls(inp, obs)
        valid, payload = self.xin(inp, "i.valid"), self.xin(inp, "i.payload")
        iready = self.xobs(obs, "i.ready")
        v = []
        for name in ("peek", "peek2"):
            if c[name].done != (c[name].en & valid):
                v.append(f"{name}.ready: done={c[name].done} en={c[name].en} i.valid={valid}")
        readers = [c["read"], c["read2"]]
        nread = sum(r.done for r in readers)
        if nread > 1:
            v.append("read.consumed_twice: two callers of read both received the one transferred payload")
        for k, r in enumerate(readers):
            if r.done and not (r.en and valid):
                v.append(f"read.ready: caller {k} done={r.done} en={r.en} i.valid={valid}")
        if valid and any(r.en for r in readers) and nread == 0:
            v.append(f"read.ready: i.valid=1 and read is called, but no caller ran")
        for name in ("read", "read2", "peek", "peek2"):
            if c[name].done and c[name].out != payload:
                v.append(f"{name}.data: got {c[name].out}, payload is {payload}")
        if iready != (1 if nread else 0):
            v.append(f"i.ready: i.ready={iready} but read {'ran' if nread else 'did not run'} "
                     f"(peek ran: {c['peek'].done})")
        if not v:
            if c["peek"].done and not nread:
                self.count("nt_peek_only")
            if nread:
                self.count("nt_read")
            if valid and c["read"].en and c["read2"].en:
                self.count("nt_two_readers_compete")
        return v, ref


class _Buffer(wiring.Component):
    """one-slot registered stream buffer, plain Amaranth; payload + 1 on the way through"""

    def __init__(self, width):
        super().__init__({"i": In(stream.Signature(width)), "o": Out(stream.Signature(width))})

    def elaborate(self, platform):
        m = Module()
        m.d.comb += self.i.ready.eq(~self.o.valid | self.o.ready)
        with m.If(self.i.valid & self.i.ready):
            m.d.sync += [self.o.valid.eq(1), self.o.payload.eq(self.i.payload + 1)]
        with m.Elif(self.o.ready):
            m.d.sync += self.o.valid.eq(0)
        return m


class _Wire(wiring.Component):
    """combinational pass-through, payload + 1"""

    def __init__(self, width):
        super().__init__({"i": In(stream.Signature(width)), "o": Out(stream.Signature(width))})

    def elaborate(self, platform):
        m = Module()
        m.d.comb += [self.o.valid.eq(self.i.valid), self.o.payload.eq(self.i.payload + 1), self.i.ready.eq(self.o.ready)]
        return m


class WrapperH(MethodHarness):
    """model = tuple of (item, age) written and not yet read; age = cycles since the write, saturating"""

    def make(self):
        from transactron.lib.stream import StreamModuleWrapper
        mod = {"buffer": _Buffer, "wire": _Wire}[self.cfg["module"]](self.cfg["width"])
        w = StreamModuleWrapper(mod)
        return w, [("write", "t", w.write), ("read", "t", w.read)]

    def init(self):
        return ()

    def alphabet(self, ref):
        if not hasattr(self, "_alpha"):
            self._alpha = self.product({"write": opts(self.cfg["width"], reduced=False), "read": opts(0)})
        return self._alpha

    def step(self, q, inp, obs):
        c = self.calls(inp, obs)
        wr, rd = c["write"], c["read"]
        M = (1 << self.cfg["width"]) - 1
        lat = 2 if self.cfg["module"] == "buffer" else 1     # cycles from write to first possible read
        v = []
        if wr.done and not wr.en:
            v.append("write.spurious")
        if rd.done and not rd.en:
            v.append("read.spurious")
        if rd.done and not q:
            v.append("read.invented: read returned an item although none is in flight")
        elif rd.done and rd.out != (q[0][0] + 1) & M:
            v.append(f"read.data: got {rd.out}, oldest item in flight is {q[0][0]} (+1 by the wrapped module)")
        if rd.en and not rd.done and q and q[0][1] >= lat:
            v.append(f"read.progress: oldest item, written {q[0][1]} cycles ago, is still not readable")
        if wr.en and not wr.done and not q:
            v.append("write.progress: write refused although the pipeline is empty")
        if v:
            return v, q
        nq = q[1:] if rd.done else q
        if wr.done:
            nq = nq + ((wr.data, 0),)
        if len(nq) > 3:
            return ["write.overrun: more than 3 items in flight"], q
        if rd.done and wr.done:
            self.count("nt_read_and_write")
        if wr.en and not wr.done:
            self.count("nt_write_blocked")
        if len(nq) >= 2:
            self.count("nt_two_in_flight")
        return v, tuple((x, min(a + 1, lat)) for x, a in nq)


def jobs(tier):
    ws = (1, 2) if tier == "quick" else (1, 2, 3)
    js = []
    for w in ws:
        js.append(E1("checks.c29", "SourceH", {"width": w}))
        js.append(E1("checks.c29", "SinkH", {"width": w}))
        for mod in ("buffer", "wire"):
            js.append(E1("checks.c29", "WrapperH", {"width": w, "module": mod}))
    return js


def run(rep, tier):
    rep.rule = ("complete BFS of StreamSource (write adapter + free o.ready), StreamSink (read + two peek callers, free "
                "i.valid/i.payload) and StreamModuleWrapper around two plain-Amaranth stream modules (registered one-slot buffer, "
                "combinational wire; both add 1 to the payload); monitors: valid iff an item is waiting, payload = oldest waiting "
                "item and unchanged while stalled, every written item transferred exactly once in order, read.ready iff i.valid, "
                "i.ready iff read runs (peek never consumes), wrapper delivers f(items) in order exactly once with bounded latency")
    rep.assumptions = ["pysim semantics", "payload width 1-2 (3 thorough)", "write readiness is observed, only 'accepted when "
                       "nothing is buffered' and 'never more than 3 buffered' are demanded"]
    rep.add_e1(run_jobs(jobs(tier)))
    return {"states": 30, "transitions": 300, "replayed": 8, "nt_transfer": 10, "nt_stalled": 10, "nt_peek_only": 10,
            "nt_read_and_write": 10, "nt_two_in_flight": 4}
