"""C30 -- InputSampler / OutputBuffer follow their trigger (all 8 trigger configurations, complete BFS)."""
from vlib.ports import MethodHarness, opts
from vlib.runner import E1, run_jobs

PROP = "C30"


def _ready(cfg, r_now, r_prev, r_prev2):
    """r_*: raw trigger pin now / one / two cycles ago (0 before reset)."""
    if cfg["synchronize"]:
        cur, old = r_prev, r_prev2
    else:
        cur, old = r_now, r_prev
    if not cfg["polarity"]:
        cur, old = 1 - cur, 1 - old
    return (cur & (1 - old)) if cfg["edge"] else cur


class SamplerH(MethodHarness):
    def make(self):
        from transactron.lib.basicio import InputSampler
        c = self.cfg
        s = InputSampler([("data", c["width"])], edge=c["edge"], polarity=c["polarity"], synchronize=c["synchronize"])
        return s, [("get", "t", s.get)], [("trigger", s.trigger), ("data", s.data.as_value())], []

    def init(self):
        return (0, 0, 0)     # trigger one / two cycles ago, data one cycle ago

    def alphabet(self, ref):
        if not hasattr(self, "_alpha"):
            self._alpha = self.product({"get": opts(0)}, {"trigger": [0, 1], "data": list(range(1 << self.cfg["width"]))})
        return self._alpha

    def step(self, ref, inp, obs):
        r1, r2, d1 = ref
        c = self.calls(inp, obs)["get"]
        r0, d0 = self.xin(inp, "trigger"), self.xin(inp, "data")
        rdy = _ready(self.cfg, r0, r1, r2)
        v = []
        if c.done != (c.en & rdy):
            v.append(f"get.ready: done={c.done} en={c.en} expected ready={rdy} (trigger now/prev/prev2 = {r0}{r1}{r2})")
        exp = d1 if self.cfg["synchronize"] else d0
        if c.done and c.out != exp:
            v.append(f"get.data: got {c.out} expected {exp}")
        if v:
            return v, ref
        if c.done:
            self.count("nt_get_ran")
        if c.en and not c.done:
            self.count("nt_get_blocked")
        return v, (r0, r1, d0)


class BufferH(MethodHarness):
    def make(self):
        from transactron.lib.basicio import OutputBuffer
        c = self.cfg
        s = OutputBuffer([("data", c["width"])], edge=c["edge"], polarity=c["polarity"], synchronize=c["synchronize"])
        return s, [("put", "t", s.put)], [("trigger", s.trigger)], [("data", s.data.as_value())]

    def init(self):
        return (0, 0, 0)     # trigger one / two cycles ago, buffered value

    def alphabet(self, ref):
        if not hasattr(self, "_alpha"):
            self._alpha = self.product({"put": opts(self.cfg["width"], reduced=False)}, {"trigger": [0, 1]})
        return self._alpha

    def step(self, ref, inp, obs):
        r1, r2, buf = ref
        c = self.calls(inp, obs)["put"]
        r0 = self.xin(inp, "trigger")
        rdy = _ready(self.cfg, r0, r1, r2)
        v = []
        if c.done != (c.en & rdy):
            v.append(f"put.ready: done={c.done} en={c.en} expected ready={rdy} (trigger now/prev/prev2 = {r0}{r1}{r2})")
        if self.xobs(obs, "data") != buf:
            v.append(f"data: pins show {self.xobs(obs, 'data')}, last put value is {buf}")
        if v:
            return v, ref
        if c.done:
            self.count("nt_put_ran")
        if c.en and not c.done:
            self.count("nt_put_blocked")
        return v, (r0, r1, c.data if c.done else buf)


def jobs(tier):
    js = []
    for w in ((1,) if tier == "quick" else (1, 2, 3)):
        for edge in (False, True):
            for pol in (False, True):
                for syn in (False, True):
                    cfg = {"width": w, "edge": edge, "polarity": pol, "synchronize": syn}
                    js.append(E1("checks.c30", "SamplerH", cfg))
                    js.append(E1("checks.c30", "BufferH", cfg))
    return js


def run(rep, tier):
    rep.rule = ("complete BFS of InputSampler and OutputBuffer for all 8 (edge, polarity, synchronize) settings, every "
                "(trigger, data, en) valuation in every reachable state, against a model holding the last two trigger levels: "
                "ready iff the (synchronised) trigger is at the configured level / shows the configured edge w.r.t. the "
                "previous cycle; get returns the equally delayed data; put's argument is on the data pins from the next cycle")
    rep.assumptions = ["pysim semantics", "trigger and data pins are 0 before the first cycle", "data width 1 (1-3 thorough)"]
    rep.add_e1(run_jobs(jobs(tier)))
    return {"states": 60, "transitions": 500, "replayed": 16, "nt_get_ran": 50, "nt_get_blocked": 50, "nt_put_ran": 50,
            "nt_put_blocked": 50}
