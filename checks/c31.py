"""C31 -- hardware counters and histograms count exactly (small registers, so wrap-around is reachable; complete BFS)."""
import enum

from amaranth import Signal, Elaboratable
from vlib.ports import MethodHarness, opts
from vlib.runner import E1, run_jobs

PROP = "C31"


def _enable_metrics(on=True):
    from transactron.lib.metrics import HwMetricsEnabledKey
    from transactron.utils.dependencies import DependencyContext
    DependencyContext.get().add_dependency(HwMetricsEnabledKey(), on)


class CounterH(MethodHarness):
    def make(self):
        from transactron.lib.metrics import HwCounter
        _enable_metrics()
        c = HwCounter("c", width_bits=self.cfg["width_bits"], ways=self.cfg["ways"])
        return c, [(f"incr{k}", "t", m) for k, m in enumerate(c.incr)], [], [("count", c.count.value)]

    def init(self):
        return 0

    def alphabet(self, ref):
        if not hasattr(self, "_alpha"):
            self._alpha = self.product({p.name: opts(0) for p in self.ports})
        return self._alpha

    def step(self, n, inp, obs):
        c = self.calls(inp, obs)
        v = []
        if self.xobs(obs, "count") != n:
            v.append(f"count: register shows {self.xobs(obs, 'count')}, executed incr calls mod 2^w = {n}")
        k = 0
        for name, x in c.items():
            if x.done != x.en:
                v.append(f"incr.ready: {name} en={x.en} done={x.done} (incr never blocks)")
            k += x.done
        if v:
            return v, n
        if k >= 2:
            self.count("nt_multi_incr")
        nn = (n + k) % (1 << self.cfg["width_bits"])
        if nn < n:
            self.count("nt_wrapped")
        return v, nn


class _A(enum.IntEnum):
    X = 1
    Y = 2
    Z = 4


class _B(enum.IntEnum):
    X = 2
    Y = 4


class _C(enum.IntEnum):
    X = 0
    Y = 3


TAGSETS = {
    "range(0,3)": lambda: range(0, 3), "range(1,4)": lambda: range(1, 4), "range(1,3)": lambda: range(1, 3),
    "[0,1,2]": lambda: [0, 1, 2], "[1,2,4]": lambda: [1, 2, 4], "[2,4]": lambda: [2, 4], "[1,4]": lambda: [1, 4],
    "[4,1,2]": lambda: [4, 1, 2], "[1,2,8]": lambda: [1, 2, 8], "[-1,0,2]": lambda: [-1, 0, 2], "[1]": lambda: [1],
    "[3,5]": lambda: [3, 5], "enum{1,2,4}": lambda: _A, "enum{2,4}": lambda: _B, "enum{0,3}": lambda: _C,
}


class TaggedH(MethodHarness):
    def make(self):
        from transactron.lib.metrics import TaggedCounter
        _enable_metrics()
        tags = TAGSETS[self.cfg["tags"]]()
        c = TaggedCounter("t", tags=tags, registers_width=self.cfg["rw"], ways=self.cfg["ways"])
        self.values = sorted(c.counters.keys())
        return c, [(f"incr{k}", "t", m) for k, m in enumerate(c.incr)], [], \
            [(f"counter[{t}]", c.counters[t].value) for t in self.values]

    def init(self):
        return None

    def alphabet(self, ref):
        if not hasattr(self, "_alpha"):
            w = self.ports[0].in_width
            enc = [t & ((1 << w) - 1) for t in self.values]
            self._enc = {e: t for e, t in zip(enc, self.values)}
            self._alpha = self.product({p.name: opts(w, enabled_values=enc) for p in self.ports})
        return self._alpha

    def step(self, ref, inp, obs):
        if ref is None:
            ref = (0,) * len(self.values)
        c = self.calls(inp, obs)
        v = []
        for i, t in enumerate(self.values):
            got = self.xobs(obs, f"counter[{t}]")
            if got != ref[i]:
                v.append(f"count: counter for tag {t} shows {got}, executed calls with that tag mod 2^w = {ref[i]}")
        add = [0] * len(self.values)
        for name, x in c.items():
            if x.done != x.en:
                v.append(f"incr.ready: {name} en={x.en} done={x.done} (incr never blocks)")
            if x.done:
                add[self.values.index(self._enc[x.data])] += 1
        if v:
            return v, ref
        if max(add) >= 2:
            self.count("nt_same_tag_twice")
        if sum(1 for a in add if a) >= 2:
            self.count("nt_two_tags")
        M = 1 << self.cfg["rw"]
        return v, tuple((r + a) % M for r, a in zip(ref, add))


class HistH(MethodHarness):
    def make(self):
        from transactron.lib.metrics import HwExpHistogram
        _enable_metrics()
        c = self.cfg
        h = HwExpHistogram("h", bucket_count=c["buckets"], sample_width=c["sw"], registers_width=c["rw"], ways=c["ways"])
        obs = [("count", h.count.value), ("sum", h.sum.value), ("min", h.min.value), ("max", h.max.value)]
        obs += [(f"bucket{i}", b.value) for i, b in enumerate(h.buckets)]
        return h, [(f"add{k}", "t", m) for k, m in enumerate(h.add)], [], obs

    def init(self):
        c = self.cfg
        return (0, 0, (1 << c["sw"]) - 1, 0) + (0,) * c["buckets"]

    def alphabet(self, ref):
        if not hasattr(self, "_alpha"):
            self._alpha = self.product({p.name: opts(self.cfg["sw"]) for p in self.ports})
        return self._alpha

    def bucket_of(self, s):
        """[0,1) [1,2) [2,4) ... [2^(n-2), inf)"""
        n = self.cfg["buckets"]
        if n == 1:
            return 0
        if s == 0:
            return 0
        return min(s.bit_length(), n - 1)

    def step(self, ref, inp, obs):
        c = self.calls(inp, obs)
        cfg = self.cfg
        names = ["count", "sum", "min", "max"] + [f"bucket{i}" for i in range(cfg["buckets"])]
        v = []
        for nm, r in zip(names, ref):
            if self.xobs(obs, nm) != r:
                v.append(f"{nm}: register shows {self.xobs(obs, nm)}, samples so far give {r}")
        samples = []
        for name, x in c.items():
            if x.done != x.en:
                v.append(f"add.ready: {name} en={x.en} done={x.done} (add never blocks)")
            if x.done:
                samples.append(x.data)
        if v:
            return v, ref
        M = 1 << cfg["rw"]
        cnt, sm, mn, mx = ref[:4]
        b = list(ref[4:])
        for s in samples:
            cnt = (cnt + 1) % M
            sm = (sm + s) % M
            mn = min(mn, s)
            mx = max(mx, s)
            i = self.bucket_of(s)
            b[i] = (b[i] + 1) % M
        if len(samples) >= 2:
            self.count("nt_two_samples")
            if len(set(self.bucket_of(s) for s in samples)) == 1:
                self.count("nt_same_bucket_twice")
        if samples and max(samples).bit_length() >= cfg["buckets"]:
            self.count("nt_last_bucket_overflow_range")
        return v, (cnt, sm, mn, mx) + tuple(b)


class _UsesMetrics(Elaboratable):
    def __init__(self):
        from transactron.lib.metrics import HwCounter, TaggedCounter, HwExpHistogram, FIFOLatencyMeasurer, TaggedLatencyMeasurer
        self.go = Signal()
        self.ran = Signal()
        self.tag = Signal(2)
        self.counter = HwCounter("c", ways=2)
        self.tagged = TaggedCounter("t", tags=range(0, 4))
        self.hist = HwExpHistogram("h", bucket_count=3, sample_width=2)
        self.lat = FIFOLatencyMeasurer("l", slots_number=2, max_latency=3)
        self.tlat = TaggedLatencyMeasurer("tl", slots_number=2, max_latency=3)

    def elaborate(self, platform):
        from transactron import TModule, Transaction
        m = TModule()
        m.submodules.counter = self.counter
        m.submodules.tagged = self.tagged
        m.submodules.hist = self.hist
        m.submodules.lat = self.lat
        m.submodules.tlat = self.tlat
        with Transaction().body(m, ready=self.go):
            self.counter.incr[0](m)
            self.counter.incr[1](m)
            self.tagged.incr[0](m, tag=self.tag)
            self.hist.add[0](m, sample=self.tag)
            self.lat.start[0](m)
            self.lat.stop[0](m)
            self.tlat.start[0](m, slot=self.tag[0])
            self.tlat.stop[0](m, slot=self.tag[1])
            m.d.comb += self.ran.eq(1)
        return m


class DisabledH(MethodHarness):
    """metrics disabled: every metric method is callable, the caller is never blocked, no register is produced"""

    def make(self):
        if self.cfg["explicit_false"]:
            _enable_metrics(False)
        self.dut = _UsesMetrics()
        return self.dut, [], [("go", self.dut.go), ("tag", self.dut.tag)], [("ran", self.dut.ran)]

    def alphabet(self, ref):
        return [(g, t) for g in (0, 1) for t in range(4)]

    def step(self, ref, inp, obs):
        v = []
        if obs[0] != inp[0]:
            v.append(f"accepted: the calling transaction is ready={inp[0]} but ran={obs[0]}")
        # undriven signals are constants; hardware state needs a clock domain or a memory
        if self.drv.clocked or self.drv.mem_slots:
            v.append(f"no_hardware: disabled metrics produced registers/memories (a sync domain exists; "
                     f"signals {self.drv.state_names()[:6]})")
        if not v and inp[0]:
            self.count("nt_called_disabled")
        return v, ref


def jobs(tier):
    q = tier == "quick"
    js = []
    for wb in (2, 3):
        for ways in (1, 2, 3):
            js.append(E1("checks.c31", "CounterH", {"width_bits": wb, "ways": ways}))
    for name in TAGSETS:
        for ways in (1, 2):
            n = len(list(TAGSETS[name]()))
            if ways == 2 and n > 2 and q and name not in ("[1,2,4]", "range(0,3)"):
                continue
            js.append(E1("checks.c31", "TaggedH", {"tags": name, "rw": 2, "ways": ways}))
    grid = []
    for buckets in (1, 2, 3, 4):
        for sw in (1, 2, 3):
            grid.append((buckets, sw, 2, 1))
    grid += [(2, 2, 2, 2), (3, 2, 1, 2)]
    if not q:
        grid += [(3, 2, 2, 2), (2, 2, 3, 1), (3, 3, 2, 1), (4, 3, 2, 1), (3, 2, 1, 3)]
    for b, sw, rw, ways in grid:
        js.append(E1("checks.c31", "HistH", {"buckets": b, "sw": sw, "rw": rw, "ways": ways}, max_states=300000))
    for ef in (False, True):
        js.append(E1("checks.c31", "DisabledH", {"explicit_false": ef}))
    return js


def run(rep, tier):
    rep.rule = ("complete BFS of HwCounter (2-3 bit register, 1-3 ways), TaggedCounter (15 tag sets: ranges, lists incl. sparse "
                "one-hot / unsorted / negative, IntEnums; 2-bit registers; 1-2 ways) and HwExpHistogram (1-4 buckets, 1-3 bit "
                "samples, 1-3 bit registers, 1-3 ways) behind one AdapterTrans per way, every call valuation in every state, all "
                "registers compared with Python-integer models in every state; with metrics disabled a transaction calling every "
                "metric method runs whenever ready and the design has no state")
    rep.assumptions = ["pysim semantics", "register widths 1-3 bits so that wrap-around is reachable", "tags driven only with "
                       "values of the declared tag set", "bucket i of n covers [2^(i-1), 2^i), bucket 0 = {0}, last = [2^(n-2), inf); "
                       "a single bucket covers everything"]
    rep.add_e1(run_jobs(jobs(tier)))
    return {"states": 500, "transitions": 5000, "replayed": 40, "nt_multi_incr": 10, "nt_wrapped": 10, "nt_same_tag_twice": 10,
            "nt_two_tags": 10, "nt_two_samples": 10, "nt_called_disabled": 8}
