"""C32 -- latency measurers record true latencies.

The oracle watches the calls the measurer makes to its histogram (`histogram.add[k].run` / `.data_in.sample`): exactly one
per finished event, sample = cycles between start and stop.  The histogram's own 32-bit accumulators are left out of the BFS
key (tsx.sink_only_check proves structurally that nothing but themselves reads them); their arithmetic is C31."""
import itertools

from vlib.ports import MethodHarness, opts
from vlib.runner import E1, run_jobs, run_big

PROP = "C32"


def _enable_metrics():
    from transactron.lib.metrics import HwMetricsEnabledKey
    from transactron.utils.dependencies import DependencyContext
    DependencyContext.get().add_dependency(HwMetricsEnabledKey(), True)


class _LatH(MethodHarness):
    def hist_obs(self, hist):
        self.hist = hist
        obs = []
        for i, a in enumerate(hist.add):
            obs.append((f"add{i}.run", a.run))
            obs.append((f"add{i}.sample", a.data_in.sample))
        return obs

    def ignore_state(self):
        return [r.value for r in self.hist.regs.values()]

    def adds(self, obs):
        return [(self.xobs(obs, f"add{i}.run"), self.xobs(obs, f"add{i}.sample")) for i in range(len(self.hist.add))]


class FifoLatH(_LatH):
    """cfg: wide (bool), slots, max_latency, ways, start_cnt, stop_cnt.  model: per way a tuple of ages (oldest first)."""

    def make(self):
        from transactron.lib.metrics import FIFOLatencyMeasurer, WideFIFOLatencyMeasurer
        _enable_metrics()
        c = self.cfg
        if c["wide"]:
            m = WideFIFOLatencyMeasurer("l", slots_number=c["slots"], max_latency=c["max_latency"],
                                        max_start_count=c["start_cnt"], max_stop_count=c["stop_cnt"], ways=c["ways"])
            self.capacity = m.slots_number
        else:
            m = FIFOLatencyMeasurer("l", slots_number=c["slots"], max_latency=c["max_latency"], ways=c["ways"])
            self.capacity = c["slots"]
        meths = []
        for k in range(c["ways"]):
            meths.append((f"start{k}", "t", m.start[k]))
            meths.append((f"stop{k}", "t", m.stop[k]))
        return m, meths, [], self.hist_obs(m.histogram)

    def init(self):
        return ((),) * self.cfg["ways"]

    def alphabet(self, ref):
        c = self.cfg
        key = tuple(len(q) for q in ref)
        cache = self.__dict__.setdefault("_alphas", {})
        if key not in cache:
            ch = {}
            for k in range(c["ways"]):
                if c["wide"]:
                    free = self.capacity - key[k]
                    ch[f"start{k}"] = [(0, 0)] + [(1, n) for n in range(0, c["start_cnt"] + 1) if n <= free]
                    ch[f"stop{k}"] = [(0, 0)] + [(1, n) for n in range(0, c["stop_cnt"] + 1) if n <= key[k]]
                else:
                    ch[f"start{k}"] = opts(0)
                    ch[f"stop{k}"] = opts(0)
            cache[key] = self.product(ch)
        return cache[key]

    def step(self, ref, inp, obs):
        c = self.cfg
        calls = self.calls(inp, obs)
        adds = self.adds(obs)
        sc = c["stop_cnt"] if c["wide"] else 1
        v = []
        nref = []
        for k in range(c["ways"]):
            q = ref[k]
            st, sp = calls[f"start{k}"], calls[f"stop{k}"]
            n_start = (st.data if c["wide"] else 1) if st.done else 0
            n_stop = (sp.data if c["wide"] else 1) if sp.done else 0
            if st.done and not st.en:
                v.append(f"start.spurious: way {k}")
            if sp.done and not sp.en:
                v.append(f"stop.spurious: way {k}")
            if sp.en and not q and sp.done and n_stop:
                v.append(f"stop.blocks_when_empty: way {k} finished an event although none is in flight")
            if sp.en and q and not sp.done:
                v.append(f"stop.progress: way {k} has {len(q)} events in flight but stop did not run")
            if st.en and len(q) >= self.capacity and st.done and n_start:
                v.append(f"start.blocks_when_full: way {k} accepted a start with all {self.capacity} slots taken")
            if st.en and not q and not st.done:
                v.append(f"start.progress: way {k} has no event in flight but start did not run")
            for i in range(sc):
                run, sample = adds[k * sc + i]
                expect_run = 1 if i < min(n_stop, len(q)) else 0
                if run != expect_run:
                    v.append(f"one_sample_per_event: way {k} stop count={n_stop}: histogram.add[{k * sc + i}] run={run}, "
                             f"expected {expect_run}")
                elif run and q[i] <= c["max_latency"] and sample != q[i]:
                    v.append(f"latency: way {k} event {i} started {q[i]} cycles ago, recorded sample {sample}")
                elif run and q[i] <= c["max_latency"]:
                    self.count("nt_sample_checked")
                    if q[i] == c["max_latency"]:
                        self.count("nt_sample_at_max_latency")
            if v:
                return v, ref
            nq = q[n_stop:] + (0,) * n_start
            if len(nq) > self.capacity:
                return [f"overrun: way {k} tracks {len(nq)} events with {self.capacity} slots"], ref
            if n_stop and n_start:
                self.count("nt_start_and_stop")
            if n_stop >= 2:
                self.count("nt_multi_stop")
            nref.append(tuple(min(a + 1, c["max_latency"] + 1) for a in nq))
        return v, tuple(nref)


class TaggedLatH(_LatH):
    """model: tuple over slots of age or None"""

    def make(self):
        from transactron.lib.metrics import TaggedLatencyMeasurer
        _enable_metrics()
        c = self.cfg
        m = TaggedLatencyMeasurer("tl", slots_number=c["slots"], max_latency=c["max_latency"], ways=c["ways"])
        meths = []
        for k in range(c["ways"]):
            meths.append((f"start{k}", "t", m.start[k]))
            meths.append((f"stop{k}", "t", m.stop[k]))
        return m, meths, [], self.hist_obs(m.histogram)

    def init(self):
        return (None,) * self.cfg["slots"]

    def alphabet(self, ref):
        c = self.cfg
        key = tuple(a is not None for a in ref)
        cache = self.__dict__.setdefault("_alphas", {})
        if key not in cache:
            free = [s for s in range(c["slots"]) if not key[s]]
            taken = [s for s in range(c["slots"]) if key[s]]
            out = []
            ways = range(c["ways"])
            start_opts = [[(0, 0)] + [(1, s) for s in free] for _ in ways]
            stop_opts = [[(0, 0)] + [(1, s) for s in taken] for _ in ways]
            for combo in itertools.product(*start_opts, *stop_opts):
                st, sp = combo[:c["ways"]], combo[c["ways"]:]
                ss = [d for e, d in st if e]
                pp = [d for e, d in sp if e]
                if len(set(ss)) != len(ss) or len(set(pp)) != len(pp):
                    continue      # each event needs a unique slot tag
                per = {}
                for k in ways:
                    per[f"start{k}"] = st[k]
                    per[f"stop{k}"] = sp[k]
                out.append(self.valuation(per))
            cache[key] = out
        return cache[key]

    def step(self, ref, inp, obs):
        c = self.cfg
        calls = self.calls(inp, obs)
        adds = self.adds(obs)
        v = []
        slots = list(ref)
        started = []
        for k in range(c["ways"]):
            st, sp = calls[f"start{k}"], calls[f"stop{k}"]
            if st.done != st.en:
                v.append(f"start.ready: way {k} en={st.en} done={st.done}")
            if sp.done != sp.en:
                v.append(f"stop.ready: way {k} en={sp.en} done={sp.done}")
            run, sample = adds[k]
            if run != sp.done:
                v.append(f"one_sample_per_event: way {k} stop ran={sp.done}, histogram.add[{k}] run={run}")
            elif run:
                age = ref[sp.data]
                if age <= c["max_latency"]:
                    if sample != age:
                        v.append(f"latency: slot {sp.data} started {age} cycles ago, recorded sample {sample}")
                    else:
                        self.count("nt_sample_checked")
                        if age == c["max_latency"]:
                            self.count("nt_sample_at_max_latency")
                slots[sp.data] = None
            if st.done:
                started.append(st.data)
        if v:
            return v, ref
        for s in started:
            slots[s] = 0
        if len(started) >= 2:
            self.count("nt_two_starts")
        if started and any(calls[f"stop{k}"].done for k in range(c["ways"])):
            self.count("nt_start_and_stop")
        return v, tuple(None if a is None else min(a + 1, c["max_latency"] + 1) for a in slots)


def jobs(tier):
    q = tier == "quick"
    small, big = [], []
    for slots in (1, 2, 3):
        for ml in (1, 3):
            small.append(E1("checks.c32", "FifoLatH", {"wide": False, "slots": slots, "max_latency": ml, "ways": 1,
                                                         "start_cnt": 1, "stop_cnt": 1}))
    for slots, ml in ((2, 1), (1, 3)):
        small.append(E1("checks.c32", "FifoLatH", {"wide": False, "slots": slots, "max_latency": ml, "ways": 2, "start_cnt": 1,
                                                     "stop_cnt": 1}))
    for slots, sc, pc in ((2, 2, 2), (2, 2, 1), (3, 1, 2), (4, 2, 2)):
        (small if slots < 3 else big).append(E1("checks.c32", "FifoLatH", {
            "wide": True, "slots": slots, "max_latency": 3, "ways": 1, "start_cnt": sc, "stop_cnt": pc}))
    for slots in (2, 3):
        for ways in (1, 2):
            for ml in (1, 3):
                if slots == 3 and ways == 2 and ml == 3 and q:
                    continue
                small.append(E1("checks.c32", "TaggedLatH", {"slots": slots, "max_latency": ml, "ways": ways}))
    if not q:
        big.append(E1("checks.c32", "FifoLatH", {"wide": False, "slots": 2, "max_latency": 3, "ways": 2, "start_cnt": 1,
                                                   "stop_cnt": 1}))
        big.append(E1("checks.c32", "FifoLatH", {"wide": True, "slots": 2, "max_latency": 3, "ways": 2, "start_cnt": 2,
                                                   "stop_cnt": 2}))
        big.append(E1("checks.c32", "FifoLatH", {"wide": False, "slots": 3, "max_latency": 4, "ways": 2, "start_cnt": 1,
                                                   "stop_cnt": 1}))
        big.append(E1("checks.c32", "TaggedLatH", {"slots": 4, "max_latency": 3, "ways": 2}))
        big.append(E1("checks.c32", "TaggedLatH", {"slots": 3, "max_latency": 6, "ways": 2}))
    return small, big


def run(rep, tier):
    rep.rule = ("complete BFS of FIFOLatencyMeasurer, WideFIFOLatencyMeasurer and TaggedLatencyMeasurer (slots 1-4, max_latency "
                "1-6, ways 1-2, start/stop counts <= 2) behind one AdapterTrans per method, in lock-step with a model holding the "
                "age of every event in flight; the calls made to histogram.add are observed: exactly one per finished event with "
                "sample == age whenever age <= max_latency; stop blocks when nothing is in flight, start when all slots are taken")
    rep.assumptions = ["pysim semantics", "used as documented: stop(count) only with count <= events in flight, start(count) only "
                       "with count <= free slots, tagged start only on free and stop only on taken slots, distinct slots per cycle",
                       "ages saturate just above max_latency, beyond which nothing is claimed",
                       "histogram accumulator registers are excluded from the state key after a structural write-only check"]
    small, big = jobs(tier)
    rep.add_e1(run_jobs(small))
    rep.add_e1(run_big(big))
    return {"states": 300, "transitions": 3000, "replayed": 20, "nt_sample_checked": 500, "nt_sample_at_max_latency": 20,
            "nt_start_and_stop": 50, "nt_multi_stop": 10, "nt_two_starts": 10}
