"""C33 -- the event log captures and decodes events faithfully (E3 histories + E4-style round trips)."""
import enum
import itertools
import os
import tempfile

from vlib.enumr import ENUM, add_enum
from vlib.runner import run_jobs

PROP = "C33"

_defs = {}


def defs():
    """event classes are registered globally by name: define them once per process"""
    if _defs:
        return _defs
    from transactron.evlog import Event, Static, event

    class Kind(enum.IntEnum):
        ALU = 0
        MUL = 1

    class Unit(enum.Enum):
        FRONT = "front"
        BACK = "back"

    @event("verif.c33.a")
    class EvA(Event):
        tag: int
        flag: bool
        lane: Static[int]

    @event("verif.c33.b")
    class EvB(Event):
        val: int
        kind: Kind
        note: Static[str] = "n"

    @event("verif.c33.c")
    class EvC(Event):
        unit: Static[Unit]

    _defs.update(Kind=Kind, Unit=Unit, EvA=EvA, EvB=EvB, EvC=EvC)
    return _defs


INPUTS = ["go", "t0", "t1", "f"]
WIDTH = {"go": 1, "t0": 1, "t1": 1, "f": 3}


def make_design():
    from amaranth import Elaboratable, Signal, signed
    from transactron import TModule, Transaction
    from transactron.evlog import EventSource
    D = defs()

    class Dut(Elaboratable):
        def __init__(self):
            self.sig = {n: Signal(WIDTH[n], name=n) for n in INPUTS}

        def elaborate(self, platform):
            m = TModule()
            s = self.sig
            f = s["f"]
            fs = Signal(signed(3))
            m.d.comb += fs.eq(f)
            front, back = EventSource("front.x"), EventSource("back")
            front.emit(m, D["EvA"].hw(tag=f, flag=f[0], lane=0), when=s["t0"])                 # site 0: top level
            with m.If(s["go"]):
                front.emit(m, D["EvA"].hw(tag=f, flag=f[2], lane=1), when=s["t0"])             # site 1: under m.If
            with Transaction().body(m, ready=s["go"]):
                back.emit(m, D["EvB"].hw(val=fs, kind=f[1], note="body"), when=s["t1"])        # site 2: in a transaction body
            back.top_emit(D["EvC"].hw(unit=D["Unit"].BACK), when=s["t1"])                      # site 3: ignores the context
            with m.If(~s["go"]):
                back.emit(m, D["EvB"].hw(val=fs, kind=f[0]))                                   # site 4: default trigger
            front.emit(m, D["EvA"].hw(tag=f, flag=f[1], lane=2), when=f)                       # site 5: multi-bit `when`
            return m

    return Dut()


def reference(history):
    """[(cycle, site, raw values)] and the decoded event objects"""
    D = defs()
    raw, dec = [], []
    for k, v in enumerate(history):
        go, t0, t1, f = (v[n] for n in INPUTS)
        fs = f - 8 if f >= 4 else f
        if t0:
            raw.append((k, 0, [f, f & 1]))
            dec.append(D["EvA"](tag=f, flag=bool(f & 1), lane=0))
        if t0 and go:
            raw.append((k, 1, [f, (f >> 2) & 1]))
            dec.append(D["EvA"](tag=f, flag=bool((f >> 2) & 1), lane=1))
        if t1 and go:
            raw.append((k, 2, [fs, (f >> 1) & 1]))
            dec.append(D["EvB"](val=fs, kind=D["Kind"]((f >> 1) & 1), note="body"))
        if t1:
            raw.append((k, 3, []))
            dec.append(D["EvC"](unit=D["Unit"].BACK))
        if not go:
            raw.append((k, 4, [fs, f & 1]))
            dec.append(D["EvB"](val=fs, kind=D["Kind"](f & 1), note="n"))
        if f != 0:          # `when` is "true" whenever the expression is non-zero
            raw.append((k, 5, [f, (f >> 1) & 1]))
            dec.append(D["EvA"](tag=f, flag=bool((f >> 1) & 1), lane=2))
    return raw, dec


def run_history(history):
    from amaranth import Cat
    from transactron.testing.simulator import PysimSimulator
    from transactron.testing.evlog import capture_evlog
    from transactron.testing.tick_count import make_tick_count_process
    from transactron.evlog import (EvLogEnabledKey, EventLog, EventLogReader, EventLogWriter, GeneratedEvLog, EventSiteLocation,
                                   GeneratedEvLogSampler, get_emitted_events)
    from transactron.utils.dependencies import DependencyContext, DependencyManager

    with DependencyContext(DependencyManager()):
        DependencyContext.get().add_dependency(EvLogEnabledKey(), True)
        dut = make_design()
        sim = PysimSimulator(dut, max_cycles=100)
        sim.add_process(make_tick_count_process())          # registers TicksKey
        log, proc = capture_evlog({"design": "c33"})
        records = get_emitted_events()

        # the same sites sampled through GeneratedEvLogSampler: handles are synthesised, readers read the values a
        # tick-synchronous process sampled from the pysim signals
        cur = {}
        handles = []
        for i, rec in enumerate(records):
            handles.append(EventSiteLocation(trigger=["top", f"trig{i}"], fields=[["top", f"s{i}_{n}"] for n in rec.fields]))
        gen_packed = GeneratedEvLog(schema=log.schema, site_locations=handles, triggers_location=["top", "packed"])
        gen_plain = GeneratedEvLog(schema=log.schema, site_locations=handles, triggers_location=None)

        def resolve(handle):
            key = ".".join(handle)
            return lambda: cur[key]

        sink_packed, sink_plain = EventLog(log.schema), EventLog(log.schema)
        sam_packed, sam_plain = GeneratedEvLogSampler(gen_packed, resolve), GeneratedEvLogSampler(gen_plain, resolve)
        flat = []
        for i, rec in enumerate(records):
            flat.append((f"top.trig{i}", rec.trigger))
            for n, val in rec.fields.items():
                flat.append((f"top.s{i}_{n}", val))
        packed_val = Cat(rec.trigger for rec in records)
        cyc = {"n": 0}

        async def sampler_proc(s):
            async for _, _, pk, *vals in s.tick().sample(packed_val).sample(*[v for _, v in flat]):
                cur.clear()
                cur["top.packed"] = int(pk)
                for (name, _), val in zip(flat, vals):
                    cur[name] = int(val)
                sam_packed.sample(cyc["n"], sink_packed)
                sam_plain.sample(cyc["n"], sink_plain)
                cyc["n"] += 1

        async def tb(s):
            for v in history:
                for n in INPUTS:
                    s.set(dut.sig[n], v[n])
                await s.tick()

        sim.add_testbench(tb)
        sim.add_process(proc)
        sim.add_process(sampler_proc)
        sim.run()

        out = {"raw": [(c, s, list(v)) for c, s, v in log.raw], "decoded": [d.event for d in log.decoded()],
               "decoded_meta": [(d.cycle, d.site.event_name, d.site.source_name) for d in log.decoded()],
               "packed": [(c, s, list(v)) for c, s, v in sink_packed.raw], "plain": [(c, s, list(v)) for c, s, v in sink_plain.raw]}
        # save / load, streaming writer / reader
        with tempfile.TemporaryDirectory() as td:
            p1, p2 = os.path.join(td, "a.jsonl"), os.path.join(td, "b.jsonl")
            log.save(p1)
            loaded = EventLog.load(p1)
            out["loaded_raw"] = [(c, s, list(v)) for c, s, v in loaded.raw]
            out["loaded_decoded"] = [d.event for d in loaded.decoded()]
            out["loaded_schema_equal"] = loaded.schema == log.schema
            with EventLogWriter(p2, log.schema) as w:
                for c, s, v in log.raw:
                    w.emit_raw(c, s, v)
            rd = EventLogReader(p2)
            out["streamed"] = [(d.cycle, d.event) for d in rd]
            out["streamed_schema_equal"] = rd.schema == log.schema
        out["decoded_full"] = log.decoded()
    return out


def consumer_check(decoded):
    """EventConsumer.run over several capture orders: dispatch in non-decreasing cycle order, stable, unhandled -> on_unhandled"""
    from transactron.evlog import EventConsumer, handles
    D = defs()

    class Cons(EventConsumer):
        def __init__(self):
            self.seen = []

        @handles(D["EvA"])
        def on_a(self, rec):
            self.seen.append(("a", id(rec)))

        @handles(D["EvB"])
        def on_b(self, rec):
            self.seen.append(("b", id(rec)))

        def on_unhandled(self, rec):
            self.seen.append(("u", id(rec)))

    class Derived(Cons):          # inherits on_a, overrides the EvB handler, adds one for EvC
        @handles(D["EvB"])
        def on_b2(self, rec):
            self.seen.append(("b2", id(rec)))

        @handles(D["EvC"])
        def on_c(self, rec):
            self.seen.append(("c", id(rec)))

    orders = [list(decoded), list(reversed(decoded)), decoded[1::2] + decoded[0::2]]
    for cls, kind in ((Cons, {D["EvA"]: "a", D["EvB"]: "b", D["EvC"]: "u"}),
                      (Derived, {D["EvA"]: "a", D["EvB"]: "b2", D["EvC"]: "c"})):
        for order in orders:
            c = cls()
            c.run(iter(order))
            exp = [(kind[type(r.event)], id(r)) for r in sorted(order, key=lambda r: r.cycle)]
            if c.seen != exp:
                return (f"consumer: {cls.__name__} dispatched {[k for k, _ in c.seen]}, expected {[k for k, _ in exp]} "
                        f"(stable in cycle order, unhandled -> on_unhandled, subclass handlers override)")
    return None


def alphabet(reduced):
    fs = (1, 5, 6) if reduced else range(8)
    return [{"go": go, "t0": t0, "t1": t1, "f": f} for go, t0, t1 in itertools.product((0, 1), repeat=3) for f in fs]


def cases(length, reduced, lo, hi):
    alpha = alphabet(reduced)
    for hist in itertools.product(range(len(alpha)), repeat=length):
        if not (lo <= hist[0] < hi):
            continue
        history = [alpha[i] for i in hist]
        case = {"history": history}
        try:
            got = run_history(history)
        except Exception as e:
            import traceback
            yield case, f"simulation: {type(e).__name__}: {str(e)[:200]} {traceback.format_exc()[-300:]}", []
            continue
        raw, dec = reference(history)
        bad = None
        if got["raw"] != raw:
            bad = f"capture: raw records {got['raw'][:4]} expected {raw[:4]}"
        elif got["decoded"] != dec:
            bad = f"decode: {got['decoded'][:3]} expected {dec[:3]}"
        elif [m[0] for m in got["decoded_meta"]] != [r[0] for r in raw]:
            bad = "decode: cycles differ"
        elif got["loaded_raw"] != raw or got["loaded_decoded"] != dec or not got["loaded_schema_equal"]:
            bad = f"save_load: loaded log differs (raw equal: {got['loaded_raw'] == raw}, schema equal: {got['loaded_schema_equal']})"
        elif got["streamed"] != [(r[0], d) for r, d in zip(raw, dec)] or not got["streamed_schema_equal"]:
            bad = f"stream: EventLogReader yields {got['streamed'][:3]}"
        elif got["packed"] != raw:
            bad = f"sampler.packed: {got['packed'][:4]} expected {raw[:4]}"
        elif got["plain"] != raw:
            bad = f"sampler.per_site: {got['plain'][:4]} expected {raw[:4]}"
        else:
            bad = consumer_check(got["decoded_full"])
        tags = []
        if len(raw) >= 3:
            tags.append("nt_three_events")
        if any(s == 2 and v[0] < 0 for _, s, v in raw):
            tags.append("nt_negative_field")
        if len(set(c for c, _, _ in raw)) >= 2:
            tags.append("nt_two_cycles")
        yield case, bad, tags


def run(rep, tier):
    rep.rule = ("a design with five emission sites (top level; under m.If; inside a transaction body; top_emit ignoring the context; "
                "default trigger under m.If; event classes with unsigned / bool / signed / IntEnum dynamic fields and int / str / "
                "Enum statics) is simulated with the real capture process for every input history (length 1 over all 64 "
                "valuations, length 2 (3 thorough) over a 24-valuation alphabet); raw records, decoded events, save->load, "
                "EventLogWriter->EventLogReader and GeneratedEvLogSampler with and without the packed trigger vector (readers over "
                "the pysim signals, synthesised handles) must all equal the reference computed from the history; EventConsumer.run "
                "over three capture orders dispatches stably in cycle order with unhandled events sent to on_unhandled")
    rep.assumptions = ["Amaranth's simulator semantics", "the Verilog name map produced by transactron.utils.gen needs Yosys and is "
                       "not exercised: sampler handles are synthesised", "five fixed sites, 3-bit fields"]
    js = []
    full, red = len(alphabet(False)), len(alphabet(True))
    for lo in range(0, full, 8):
        js.append(ENUM("checks.c33", "cases", {"length": 1, "reduced": False, "lo": lo, "hi": lo + 8}))
    for lo in range(0, red, 1):
        js.append(ENUM("checks.c33", "cases", {"length": 2, "reduced": True, "lo": lo, "hi": lo + 1}))
    if tier != "quick":
        for lo in range(0, red, 1):
            js.append(ENUM("checks.c33", "cases", {"length": 3, "reduced": True, "lo": lo, "hi": lo + 1}))
        for lo in range(0, full, 2):
            js.append(ENUM("checks.c33", "cases", {"length": 2, "reduced": False, "lo": lo, "hi": lo + 2}))
    add_enum(rep, run_jobs(js))
    return {"transitions": 500, "nt_three_events": 200, "nt_negative_field": 50, "nt_two_cycles": 200}
