"""C34 -- hardware logs and assertions fire exactly when triggered (E3: every trigger/field history of bounded length run
through the real simulation logging process, emissions collected by a Python logging handler)."""
import itertools
import logging

from vlib.enumr import ENUM, add_enum
from vlib.runner import run_jobs

PROP = "C34"

INPUTS = ["go", "t0", "t1", "err", "bad", "f"]        # f: 2 bits, the rest 1 bit
WIDTH = {"go": 1, "t0": 1, "t1": 1, "err": 1, "bad": 1, "f": 2}


def make_design():
    from amaranth import Elaboratable, Signal, signed, Cat, C
    from transactron import TModule, Method, Transaction, def_method
    from transactron.utils.logging import HardwareLogger, assertion

    class Dut(Elaboratable):
        def __init__(self):
            self.sig = {n: Signal(WIDTH[n], name=n) for n in INPUTS}

        def elaborate(self, platform):
            m = TModule()
            s = self.sig
            la, lio = HardwareLogger("core.a"), HardwareLogger("io")
            f = s["f"]
            fs = Signal(signed(2))
            m.d.comb += fs.eq(f)
            ch = Signal(8)
            m.d.comb += ch.eq(0x41 + f)
            la.debug(m, s["t0"], "d {}", f)                                   # r0: top level
            with m.If(s["go"]):
                la.info(m, s["t0"], "i {:x}/{:03b}", f + 9, f)                # r1: under m.If, two fields
            meth = Method()

            @def_method(m, meth)
            def _():
                la.warning(m, s["t1"], "w {:d}", fs)                          # r2: inside a method body, signed field
            with Transaction().body(m, ready=s["go"]):
                meth(m)
            lio.info(m, s["t1"], "s {:s}!", ch)                               # r3: string format
            lio.info(m, s["t1"] & s["t0"], "plain")                           # r4: no fields
            lio.error(m, s["err"], "e {}", f)                                 # r5: ERROR
            with m.If(~s["go"]):
                assertion(m, ~s["bad"], "a {:02d}", f, name="io.chk")         # r6: assertion (ERROR when bad, context ~go)
            lio.warning(m, s["t0"], "after {}", f)                            # r7: registered after the error records
            la.info(m, f, "wide {}", f)                                       # r8: multi-bit trigger (non-zero = true)
            with m.If(s["t1"]):
                lio.debug(m, f[1:], "p {:>3s}|{:*<3s}|{:4d}", ch, ch, fs)     # r9: string width / fill / alignment specs
            return m

    return Dut()


def reference(history, level, regexp):
    """list of (cycle, logger, level, message) up to and including the first ERROR; failed flag"""
    import re
    out = []
    for k, v in enumerate(history):
        go, t0, t1, err, bad, f = (v[n] for n in INPUTS)
        fs = f - 4 if f >= 2 else f
        recs = [
            ("core.a", logging.DEBUG, t0, f"d {f}"),
            ("core.a", logging.INFO, t0 and go, "i {:x}/{:03b}".format(f + 9, f)),
            ("core.a", logging.WARNING, t1 and go, "w {:d}".format(fs)),
            ("io", logging.INFO, t1, "s {:s}!".format(chr(0x41 + f))),
            ("io", logging.INFO, t1 and t0, "plain"),
            ("io", logging.ERROR, err, f"e {f}"),
            ("io.chk", logging.ERROR, bad and not go, "a {:02d}".format(f)),
            ("io", logging.WARNING, t0, f"after {f}"),
            ("core.a", logging.INFO, f != 0, f"wide {f}"),
            ("io", logging.DEBUG, t1 and (f >> 1), "p {:>3s}|{:*<3s}|{:4d}".format(chr(0x41 + f), chr(0x41 + f), fs)),
        ]
        for name, lvl, trig, msg in recs:
            if lvl < level or not re.search(regexp, name):
                continue
            if trig:
                out.append((k, name, lvl, msg))
                if lvl >= logging.ERROR:
                    return out, True
    return out, False


class _Collect(logging.Handler):
    def __init__(self):
        super().__init__(level=0)
        self.items = []

    def emit(self, record):
        from transactron.testing import logging as tl
        msg = record.getMessage()
        self.items.append((tl._sim_cycle, record.name, record.levelno, msg.split("] ", 1)[1] if "] " in msg else msg))


def run_history(history, level, regexp):
    from transactron.testing.simulator import PysimSimulator
    from transactron.testing.logging import make_logging_process
    from transactron.testing.tick_count import make_tick_count_process
    from transactron.utils.dependencies import DependencyContext, DependencyManager

    root = logging.getLogger()
    h = _Collect()
    before, lvl_before = root.handlers[:], root.level
    root.handlers = [h]
    root.setLevel(0)
    failed = {"on_error": 0, "raised": False}
    try:
        with DependencyContext(DependencyManager()):
            dut = make_design()
            sim = PysimSimulator(dut, max_cycles=100)

            def on_error():
                failed["on_error"] += 1
                assert False, "Simulation finished due to an error"

            async def tb(s):
                for v in history:
                    for n in INPUTS:
                        s.set(dut.sig[n], v[n])
                    await s.tick()

            sim.add_testbench(tb)
            sim.add_process(make_logging_process(level, regexp, on_error))
            sim.add_process(make_tick_count_process())
            try:
                sim.run()
            except AssertionError:
                failed["raised"] = True
    finally:
        root.handlers = before
        root.setLevel(lvl_before)
    return h.items, failed


def alphabet(reduced):
    fs = (1, 2) if reduced else (0, 1, 2, 3)
    out = []
    for go, t0, t1, err, bad in itertools.product((0, 1), repeat=5):
        for f in fs:
            out.append({"go": go, "t0": t0, "t1": t1, "err": err, "bad": bad, "f": f})
    return out


def cases(length, reduced, level, regexp, lo, hi):
    alpha = alphabet(reduced)
    for idx, hist in enumerate(itertools.product(range(len(alpha)), repeat=length)):
        if not (lo <= hist[0] < hi):
            continue
        history = [alpha[i] for i in hist]
        case = {"history": history, "level": level, "regexp": regexp}
        try:
            got, failed = run_history(history, level, regexp)
        except Exception as e:
            yield case, f"simulation: {type(e).__name__}: {str(e)[:200]}", []
            continue
        exp, exp_failed = reference(history, level, regexp)
        bad = None
        if got != exp:
            miss = [e for e in exp if e not in got]
            extra = [g for g in got if g not in exp]
            bad = (f"emissions: missing {miss[:2]} unexpected {extra[:2]}" if (miss or extra)
                   else f"emissions.order: {got[:4]} vs expected {exp[:4]}")
        elif failed["raised"] != exp_failed or (failed["on_error"] > 0) != exp_failed:
            bad = f"error_ends_simulation: expected failure={exp_failed}, on_error calls={failed['on_error']}, run raised={failed['raised']}"
        tags = []
        if exp_failed:
            tags.append("nt_error_ended")
        if len(exp) >= 3:
            tags.append("nt_three_emissions")
        if any(e[1] == "core.a" and e[2] == logging.WARNING and e[3].startswith("w -") for e in exp):
            tags.append("nt_signed_negative")
        yield case, bad, tags


def run(rep, tier):
    rep.rule = ("a design with ten log records (multi-bit trigger; string width/fill specs; debug at top level; info with two formatted fields under m.If; warning with a "
                "signed field inside a method body; string format; record without fields; ERROR record; assertion under m.If; a "
                "record registered after the ERROR ones; three logger names) is simulated with the real make_logging_process for "
                "every input history: length 1 over all 128 valuations for three (level, namespace) filters, length 2 over a "
                "64-valuation alphabet (length 2 full and length 3 reduced in thorough); a logging.Handler collects (cycle, logger, "
                "level, message); compared with the reference list computed with Python's own str.format; the first ERROR "
                "emission must call on_error once and end the run with a failure, later records must not be emitted")
    rep.assumptions = ["Amaranth's simulator semantics", "8 fixed records, 2-bit fields"]
    js = []
    full = len(alphabet(False))
    red = len(alphabet(True))
    for level, rx in ((logging.DEBUG, ".*"), (logging.WARNING, ".*"), (logging.DEBUG, r"^core\."), (logging.INFO, "o$")):
        for lo in range(0, full, 16):
            js.append(ENUM("checks.c34", "cases", {"length": 1, "reduced": False, "level": level, "regexp": rx, "lo": lo,
                                                   "hi": lo + 16}))
    if tier == "quick":
        for lo in range(0, red, 2):
            js.append(ENUM("checks.c34", "cases", {"length": 2, "reduced": True, "level": logging.DEBUG, "regexp": ".*",
                                                   "lo": lo, "hi": lo + 2}))
    else:
        for lo in range(0, full, 1):
            js.append(ENUM("checks.c34", "cases", {"length": 2, "reduced": False, "level": logging.DEBUG, "regexp": ".*",
                                                   "lo": lo, "hi": lo + 1}))
        for lo in range(0, red, 1):
            js.append(ENUM("checks.c34", "cases", {"length": 3, "reduced": True, "level": logging.INFO, "regexp": ".*",
                                                   "lo": lo, "hi": lo + 1}))
    add_enum(rep, run_jobs(js))
    return {"transitions": 2000, "nt_error_ended": 500, "nt_three_emissions": 300, "nt_signed_negative": 50}
