"""C35 -- the profiler records what actually ran.

For every design of small DSL families x both schedulers the real profiler_process runs in a real simulation next to a
monitor that samples ready/run of every body; the stimulus walks through every input valuation (twice, so that designs with
FSM / arbiter state are seen in several states).  Every CycleProfile is compared with the monitor and with the reference
conflict / call relations of vlib.dsl; analyze_transactions and encode/decode are checked on the resulting Profile."""
import itertools
import os
import tempfile

from vlib.enumr import ENUM, add_enum
from vlib.runner import run_jobs

PROP = "C35"

FAMS = {
    "flat_s": ("flat", {"small": True}),
    "chain_s": ("chain", {"small": True}),
    "rel2": ("rel", {"n": 2}),
    "rel3": ("rel", {"n": 3}),
    "nest": ("nest", {}),
    "ctrl": ("ctrl", {}),
}


def profile_design(design, max_bits=8):
    from vlib import dsl
    from transactron.core.context import TransactronContextElaboratable
    from transactron.core.manager import TransactionManager
    from transactron.core.schedulers import eager_deterministic_cc_scheduler, trivial_roundrobin_cc_scheduler
    from transactron.utils.dependencies import DependencyContext, DependencyManager
    from transactron.testing.simulator import PysimSimulator
    from transactron.testing.profiler import profiler_process
    from transactron.profiler import Profile

    info = dsl.parse(design)
    st = dsl.Static(info)
    if not (st.ok and st.well_formed):
        return None
    nbits = sum(w for _, w in info.inputs)
    if nbits > max_bits:
        return None
    dm = DependencyManager()
    with DependencyContext(dm):
        elab = dsl.DesignElab(design, dsl.parse(design))
        sch = eager_deterministic_cc_scheduler if design.get("sched", "eager") == "eager" else trivial_roundrobin_cc_scheduler
        tm = TransactionManager(sch)
        top = TransactronContextElaboratable(elab, dependency_manager=dm, transaction_manager=tm)
        sim = PysimSimulator(top, max_cycles=5000, add_transaction_module=False)
        inputs, observed = elab.handles()
        names = [n for n in info.order]
        run_sigs = [v for n, v in observed if n.startswith("run:") and n[4:] in info.bodies]
        rdy_sigs = [v for n, v in observed if n.startswith("rdy:") and n[4:] in info.bodies]
        order = [n[4:] for n, v in observed if n.startswith("run:") and n[4:] in info.bodies]
        profile = Profile()
        truth = []
        doms = [range(1 << w) for _, w in info.inputs]
        vals = list(itertools.product(*doms)) if doms else [()]

        async def tb(s):
            for _ in range(2):
                for v in vals:
                    for (n, sig), x in zip(inputs, v):
                        s.set(sig, x)
                    await s.tick()

        async def monitor(s):
            async for _, _, *smp in s.tick().sample(*run_sigs).sample(*rdy_sigs):
                k = len(run_sigs)
                truth.append(({n: int(x) for n, x in zip(order, smp[:k])}, {n: int(x) for n, x in zip(order, smp[k:])}))

        sim.add_testbench(tb)
        sim.add_testbench(monitor, background=True)
        sim.add_process(profiler_process(tm, profile))
        sim.run()
    return info, st, profile, truth, order


def check_profile(info, st, profile, truth, order, sched):
    B = info.bodies
    ids = {}
    for i, pi in profile.transactions_and_methods.items():
        cands = [n for n in order if pi.name == n or pi.name.endswith("_" + n) or pi.name.endswith("." + n)]
        if len(cands) != 1:
            return f"names: profile entry {pi.name!r} does not identify one body of {order}", {}
        ids[i] = cands[0]
        if pi.is_transaction != (B[cands[0]].kind == "t"):
            return f"info: {pi.name} is_transaction={pi.is_transaction}", {}
    inv = {n: i for i, n in ids.items()}
    # bodies the manager pruned (uncalled methods) may be absent from the profile: they never run
    parents = {n: set() for n in order}
    for s in info.sites:
        parents[s.target].add(s.body)
    n_cyc = min(len(profile.cycles), len(truth))
    if abs(len(profile.cycles) - len(truth)) > 1 or n_cyc == 0:
        return f"cycles: profile has {len(profile.cycles)} cycles, the simulation {len(truth)}", {}
    counts = {"nt_locked": 0, "nt_running_methods": 0}
    run_cnt = {n: 0 for n in order}
    locked_cnt = {n: 0 for n in order}
    for k in range(n_cyc):
        runs, rdy = truth[k]
        c = profile.cycles[k]
        running = {ids[i]: (None if j is None else ids[j]) for i, j in c.running.items()}
        locked = {ids[i]: ids[j] for i, j in c.locked.items()}
        exp_running = {n for n in order if runs[n] and n in inv}
        if set(running) != exp_running:
            return (f"running: cycle {k}: profile lists {sorted(running)}, bodies that ran {sorted(exp_running)}"), counts
        for n, caller in running.items():
            if B[n].kind == "t":
                if caller is not None:
                    return f"running.caller: transaction {n} has caller {caller}", counts
                run_cnt[n] += 1
            else:
                counts["nt_running_methods"] += 1
                if caller is None or not runs.get(caller) or caller not in parents[n]:
                    return (f"running.caller: cycle {k}: method {n} recorded with caller {caller}; running callers of it: "
                            f"{sorted(p for p in parents[n] if runs.get(p))}"), counts
        for n, other in locked.items():
            if B[n].kind == "t":
                locked_cnt[n] += 1
                counts["nt_locked"] += 1
                if runs[n] or not rdy[n]:
                    return f"locked.only_when_ready: cycle {k}: {n} marked locked with ready={rdy[n]} run={runs[n]}", counts
                unready = [m_ for m_ in st.calltree[n] if not rdy.get(m_, 1)]
                if unready:
                    return (f"locked.only_when_runnable: cycle {k}: {n} marked locked although it could not run anyway "
                            f"(methods {unready} it calls are not ready)"), counts
                if B[other].kind != "t" or not runs[other] or other not in st.conf[n]:
                    return (f"locked.by_conflicting: cycle {k}: {n} marked locked by {other} (ran={runs.get(other)}, "
                            f"conflicts with {sorted(st.conf[n])})"), counts
            else:
                if runs[n]:
                    return f"locked.method_runs: cycle {k}: method {n} both runs and is locked", counts
                if other not in parents[n]:
                    return f"locked.method_caller: cycle {k}: method {n} locked by {other}, not one of its callers", counts
        if sched == "eager":
            # the documented converse: a ready transaction that lost against a running conflicting one is listed as locked
            for t in st.trans:
                if t in inv and rdy[t] and not runs[t] and t not in locked:
                    blockers = [u for u in st.conf[t] if runs.get(u)]
                    if blockers and all(rdy.get(m, 1) for m in st.calltree[t]):
                        return f"locked.missing: cycle {k}: {t} ready, blocked by running {blockers}, but not marked locked", counts
    stats = {s.stat.name: s.stat for s in profile.analyze_transactions()}
    for t in st.trans:
        if t not in inv:
            continue
        nm = profile.transactions_and_methods[inv[t]].name
        s = stats.get(nm)
        if s is None:
            return f"stats: no statistics for {t}", counts
        tr = sum(1 for k in range(n_cyc) if truth[k][0][t])
        if len(profile.cycles) == n_cyc and (s.run != run_cnt[t] or s.run != tr):
            return f"stats.run: {t}: analyze_transactions says {s.run}, profile cycles {run_cnt[t]}, simulation {tr}", counts
        if len(profile.cycles) == n_cyc and s.locked != locked_cnt[t]:
            return f"stats.locked: {t}: analyze_transactions says {s.locked}, profile cycles {locked_cnt[t]}", counts
    with tempfile.TemporaryDirectory() as td:
        p = os.path.join(td, "p.json")
        profile.encode(p)
        from transactron.profiler import Profile
        back = Profile.decode(p)
        if back != profile:
            return "roundtrip: Profile.decode(encode(p)) != p", counts
    return None, counts


def cases(fam, start, stop, sched):
    from vlib import families
    name, params = FAMS[fam]
    gen = families.FAMILIES[name](**params)
    for idx, design in enumerate(itertools.islice(gen, start, stop)):
        design = dict(design, sched=sched)
        case = {"family": fam, "index": start + idx, "sched": sched}
        try:
            r = profile_design(design)
        except Exception as e:
            import traceback
            yield case, f"simulation: {type(e).__name__}: {str(e)[:150]} | {traceback.format_exc()[-400:]}", []
            continue
        if r is None:
            continue
        info, st, profile, truth, order = r
        bad, counts = check_profile(info, st, profile, truth, order, sched)
        tags = ["nt_designs"] + (["nt_design_with_locked"] if counts.get("nt_locked") else []) + (
            ["nt_design_with_running_methods"] if counts.get("nt_running_methods") else [])
        yield case, bad, tags


def run(rep, tier):
    from vlib import families
    rep.rule = ("for every well-formed design of the small DSL families (flat, chain, rel, nest, ctrl; <= 8 input bits) under both "
                "schedulers, the real profiler_process runs in a real simulation whose stimulus walks twice through every input "
                "valuation, next to a monitor sampling ready/run of every body; per cycle: profile.running == bodies that ran, "
                "each running method's recorded caller is a running static caller, a transaction is marked locked only if ready "
                "and not running and the named transaction ran and conflicts with it (reference conflict relation from syntax), "
                "under the eager scheduler every ready transaction blocked by a running conflicting one is marked; "
                "analyze_transactions run/locked == counts over cycles == simulation; encode/decode round trip")
    rep.assumptions = ["Amaranth's simulator semantics", "reference call/conflict relations of vlib/dsl.py", "a 'state' is one "
                       "design x scheduler, a 'transition' one simulated profile"]
    fams = ["rel2", "ctrl", "nest", "rel3", "flat_s", "chain_s"] if tier != "quick" else ["rel2", "ctrl", "nest", "rel3", "flat_s"]
    js = []
    for f in fams:
        name, params = FAMS[f]
        n = families.count(name, params)
        if tier == "quick" and f == "flat_s":
            n = min(n, 600)
        for s in range(0, n, 25):
            for sched in ("eager", "rr"):
                js.append(ENUM("checks.c35", "cases", {"fam": f, "start": s, "stop": min(n, s + 25), "sched": sched}))
    add_enum(rep, run_jobs(js))
    return {"transitions": 300, "nt_designs": 300, "nt_design_with_locked": 50, "nt_design_with_running_methods": 100}
