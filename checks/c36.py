"""C36 -- bit-manipulation helpers compute their documented functions (every input valuation, bounded widths)."""
from amaranth import Signal, Cat, C, signed, Value
from amaranth.lib import data

from vlib.comb import COMB, add_comb
from vlib.runner import run_jobs

PROP = "C36"


def _ctz(n, w):
    return w if n == 0 else (n & -n).bit_length() - 1


def unary(width):
    """All one-operand helpers on one `width`-bit signal."""
    from transactron.utils.amaranth_ext import functions as F
    s = Signal(width)
    M = (1 << width) - 1

    def ref(v):
        n = v[0]
        low = n & -n
        return (
            bin(n).count("1"),
            width - n.bit_length(),
            _ctz(n, width),
            low,
            n & ~low & M,
            ((-1 << _ctz(n, width)) & M) if n else 0,
            ((-1 << (_ctz(n, width) + 1)) & M) if n else 0,
            ((1 << (_ctz(n, width) + 1)) - 1) & M if n else M,
            ((1 << _ctz(n, width)) - 1) if n else M,
        )

    outs = [
        ("popcount", F.popcount(s)),
        ("count_leading_zeros", F.count_leading_zeros(s)),
        ("count_trailing_zeros", F.count_trailing_zeros(s)),
        ("extract_lowest_set_bit", F.extract_lowest_set_bit(s)),
        ("clear_lowest_set_bit", F.clear_lowest_set_bit(s)),
        ("mask_from_first_set_bit", F.mask_from_first_set_bit(s)),
        ("mask_after_first_set_bit", F.mask_after_first_set_bit(s)),
        ("mask_until_first_set_bit", F.mask_until_first_set_bit(s)),
        ("mask_before_first_set_bit", F.mask_before_first_set_bit(s)),
    ]
    return dict(inputs=[("value", s)], outs=outs, ref=ref)


def unary_expr(width):
    """The same helpers applied to an expression (Cat of two signals / a slice), not a bare Signal."""
    from transactron.utils.amaranth_ext import functions as F
    a = Signal((width + 1) // 2)
    b = Signal(width // 2) if width // 2 else None
    s = Cat(a, b) if b is not None else Cat(a)
    la = len(a)
    M = (1 << width) - 1

    def ref(v):
        n = v[0] | ((v[1] << la) if b is not None else 0)
        low = n & -n
        return (bin(n).count("1"), width - n.bit_length(), _ctz(n, width), low, n & ~low & M)

    outs = [("popcount", F.popcount(s)), ("count_leading_zeros", F.count_leading_zeros(s)),
            ("count_trailing_zeros", F.count_trailing_zeros(s)), ("extract_lowest_set_bit", F.extract_lowest_set_bit(s)),
            ("clear_lowest_set_bit", F.clear_lowest_set_bit(s))]
    ins = [("a", a)] + ([("b", b)] if b is not None else [])
    return dict(inputs=ins, outs=outs, ref=ref)


def cyclic(bits):
    from transactron.utils.amaranth_ext import functions as F
    start = Signal(range(bits))
    end = Signal(range(bits))

    def ref(v):
        s, e = v
        m = 0
        if s <= e:
            for i in range(s, e + 1):
                m |= 1 << i
        else:
            for i in range(0, e + 1):
                m |= 1 << i
            for i in range(s, bits):
                m |= 1 << i
        return (m,)

    return dict(inputs=[("start", start, range(bits)), ("end", end, range(bits))],
                outs=[("cyclic_mask", F.cyclic_mask(bits, start, end)[:bits])], ref=ref)


def modincr(mod, extra_bits):
    from transactron.utils.amaranth_ext import functions as F
    from amaranth.utils import bits_for
    s = Signal(bits_for(mod - 1) + extra_bits) if mod > 1 or extra_bits else Signal(1)
    w = len(s)
    return dict(inputs=[("sig", s, range(mod))], outs=[("mod_incr", F.mod_incr(s, mod)[:w + 1])],
                ref=lambda v: ((v[0] + 1) % mod,))


def modadd(mod, max_incr, const_incr):
    from transactron.utils.amaranth_ext import functions as F
    from amaranth.utils import bits_for
    s = Signal(max(1, bits_for(mod - 1)))
    if const_incr is None:
        inc = Signal(max(1, bits_for(max_incr)))
        ins = [("sig", s, range(mod)), ("incr", inc, range(max_incr + 1))]
        expr = F.mod_add(s, mod, inc, max_incr)
        ref = (lambda v: ((v[0] + v[1]) % mod,))
    else:
        ins = [("sig", s, range(mod))]
        expr = F.mod_add(s, mod, const_incr, max_incr)
        ref = (lambda v: ((v[0] + const_incr) % mod,))
    return dict(inputs=ins, outs=[("mod_add", Value.cast(expr)[:len(s) + 2])], ref=ref)


def reduce(widths, sgn, bundle):
    """sum/or/and/min/max over len(widths) operands; bundle: 'flat' | 'list' | 'dict' | 'view'."""
    from transactron.utils.amaranth_ext import functions as F
    if bundle == "view":
        lay = data.StructLayout({f"f{i}": (signed(w) if sgn else w) for i, w in enumerate(widths)})
        v = Signal(lay)
        ops = [v[f"f{i}"] for i in range(len(widths))]
        args = (v,)
        ins = [("view", v)]
        lows = [-(1 << (w - 1)) if sgn else 0 for w in widths]

        def dec(vals):
            out, off = [], 0
            for w in widths:
                x = (vals[0] >> off) & ((1 << w) - 1)
                if sgn and x >> (w - 1):
                    x -= 1 << w
                out.append(x)
                off += w
            return out
    else:
        ops = [Signal(signed(w) if sgn else w, name=f"x{i}") for i, w in enumerate(widths)]
        ins = [(f"x{i}", s) for i, s in enumerate(ops)]
        if bundle == "flat":
            args = tuple(ops)
        elif bundle == "list":
            args = (ops[:1], ops[1:]) if len(ops) > 1 else (ops,)
        else:
            args = ({f"k{i}": s for i, s in enumerate(ops)},)

        def dec(vals):
            return list(vals)

    def ref(vals):
        xs = dec(vals)
        o = 0
        a = -1
        for x in xs:
            o |= x
            a &= x
        if not sgn:
            wmax = max(widths)
            o &= (1 << wmax) - 1
            a &= (1 << min(widths)) - 1 if len(widths) else 0
        return (sum(xs), o, a, min(xs), max(xs))

    outs = [("sum_value", F.sum_value(*args)), ("or_value", F.or_value(*args)), ("and_value", F.and_value(*args)),
            ("min_value", F.min_value(*args)), ("max_value", F.max_value(*args))]
    return dict(inputs=ins, outs=outs, ref=ref)


def muxes(kind, width, selw):
    from transactron.utils.amaranth_ext import functions as F
    sel = Signal(selw)
    if kind == "plain":
        a, b = Signal(width), Signal(width)
        outs = [("mux", F.mux(sel, a, b)), ("mux_const", F.mux(sel, a, 1))]
        return dict(inputs=[("sel", sel), ("val1", a), ("val0", b)], outs=outs,
                    ref=lambda v: (v[1] if v[0] else v[2], v[1] if v[0] else 1))
    if kind == "signed":
        a, b = Signal(signed(width)), Signal(width)
        outs = [("mux", F.mux(sel, a, b))]
        return dict(inputs=[("sel", sel), ("val1", a), ("val0", b)], outs=outs,
                    ref=lambda v: (v[1] if v[0] else v[2],))
    lay = data.StructLayout({"x": width, "y": 1})
    a, b = Signal(lay), Signal(lay)
    r = F.mux(sel, a, b)
    r2 = F.mux(sel, a, lay.const({"x": 1, "y": 1}))
    assert isinstance(r, data.View) and r.shape() == lay
    M = (1 << width) - 1
    outs = [("mux.x", r.x), ("mux.y", r.y), ("mux_const.x", r2.x), ("mux_const.y", r2.y)]

    def ref(v):
        ch = v[1] if v[0] else v[2]
        ch2 = v[1] if v[0] else (1 | (1 << width))
        return (ch & M, ch >> width, ch2 & M, ch2 >> width)

    return dict(inputs=[("sel", sel), ("val1", a), ("val0", b)], outs=outs, ref=ref)


def switch(variant, width):
    from transactron.utils.amaranth_ext import functions as F
    t = Signal(2)
    vs = [Signal(width, name=f"v{i}") for i in range(3)]
    if variant == "default":
        cases = [(0, vs[0]), (2, vs[1]), (None, vs[2])]
        pick = lambda tt, v: v[0] if tt == 0 else v[1] if tt == 2 else v[2]
    elif variant == "nodefault":
        cases = [(1, vs[0]), ((2, 3), vs[1])]
        pick = lambda tt, v: v[0] if tt == 1 else v[1] if tt in (2, 3) else 0
    elif variant == "pattern":
        cases = [("1-", vs[0]), ("-1", vs[1]), (None, vs[2])]
        pick = lambda tt, v: v[0] if tt & 2 else v[1] if tt & 1 else v[2]
    elif variant == "overlap":
        cases = [(1, vs[0]), (1, vs[1]), (None, 1)]
        pick = lambda tt, v: v[0] if tt == 1 else 1
    else:
        raise ValueError(variant)
    outs = [("switch_value", F.switch_value(t, cases))]
    ins = [("test", t)] + [(f"v{i}", s) for i, s in enumerate(vs)]
    return dict(inputs=ins, outs=outs, ref=lambda v: (pick(v[0], v[1:]),))


def jobs(tier):
    wmax = 6 if tier == "quick" else 9
    js = []
    for w in range(1, wmax + 1):
        js.append(COMB("checks.c36", "unary", {"width": w}))
        js.append(COMB("checks.c36", "unary_expr", {"width": w}))
    for bits in range(1, (9 if tier == "quick" else 13)):
        js.append(COMB("checks.c36", "cyclic", {"bits": bits}))
    for mod in range(1, (10 if tier == "quick" else 18)):
        for xb in (0, 1):
            js.append(COMB("checks.c36", "modincr", {"mod": mod, "extra_bits": xb}))
        for mi in range(0, (5 if tier == "quick" else 7)):
            js.append(COMB("checks.c36", "modadd", {"mod": mod, "max_incr": mi, "const_incr": None}))
            js.append(COMB("checks.c36", "modadd", {"mod": mod, "max_incr": mi, "const_incr": mi}))
    import itertools
    wr = (1, 2, 3)
    for n in (1, 2, 3, 4):
        for widths in itertools.product(wr, repeat=n):
            if n == 4 and (tier == "quick" and max(widths) > 2):
                continue
            for sgn in (False, True):
                bundles = ["flat"] if n > 2 and tier == "quick" else ["flat", "list", "dict", "view"]
                for bd in bundles:
                    js.append(COMB("checks.c36", "reduce", {"widths": list(widths), "sgn": sgn, "bundle": bd}))
    for kind in ("plain", "signed", "view"):
        for w in (1, 2, 3):
            for sw in (1, 2):
                js.append(COMB("checks.c36", "muxes", {"kind": kind, "width": w, "selw": sw}))
    for var in ("default", "nodefault", "pattern", "overlap"):
        for w in (1, 2):
            js.append(COMB("checks.c36", "switch", {"variant": var, "width": w}))
    return js


def run(rep, tier):
    rep.rule = ("every helper of transactron.utils.amaranth_ext.functions named in the statement is instantiated by the real "
                "library code for every width / modulus / operand-count of the bound and evaluated on every input valuation "
                "by pysim; each output is compared with a Python-integer definition taken from the docstrings")
    rep.assumptions = ["pysim semantics", "widths <= 6 (quick) / 9 (thorough); moduli <= 9 / 17; reductions over <= 4 operands "
                       "of width <= 3; mod_incr/mod_add operands in range (sig < mod, incr <= max_incr); cyclic_mask "
                       "start/end < bits"]
    add_comb(rep, run_jobs(jobs(tier), chunksize=4))
    return {"states": 100, "transitions": 10000, "replayed": 100, "nt_distinct_outputs": 1000}
