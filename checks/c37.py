"""C37 -- shifters and rotators (every value, offset in 0..width, every width of the bound)."""
from amaranth import Signal, signed
from amaranth.lib import data

from vlib.comb import COMB, add_comb
from vlib.runner import run_jobs

PROP = "C37"


def _shr(bits, n, off, fill):
    """bits: list (LSB first); result[i] = bits[i+off] or fill[i+off-n]"""
    return [bits[i + off] if i + off < n else fill[i + off - n] for i in range(n)]


def _shl(bits, n, off, fill):
    """result[i] = bits[i-off] if i >= off else fill[n - off + i]  (space filled from the top of `fill`)"""
    return [bits[i - off] if i >= off else fill[n - off + i] for i in range(n)]


def _int(bits):
    return sum(b << i for i, b in enumerate(bits))


def scalar(width, sgn=False):
    from transactron.utils.amaranth_ext import shifter as S
    v = Signal(signed(width) if sgn else width)
    off = Signal(range(width + 1))
    ph = Signal(1)

    def ref(vals):
        x, o, p = vals
        x &= (1 << width) - 1
        b = [(x >> i) & 1 for i in range(width)]
        return (_int(_shl(b, width, o, [p] * width)), _int(_shr(b, width, o, [p] * width)),
                _int(_shl(b, width, o, [0] * width)), _int(_shr(b, width, o, [0] * width)),
                _int(_shl(b, width, o, b)), _int(_shr(b, width, o, b)))

    outs = [("shift_left", S.shift_left(v, off, ph)), ("shift_right", S.shift_right(v, off, ph)),
            ("shift_left0", S.shift_left(v, off)), ("shift_right0", S.shift_right(v, off)),
            ("rotate_left", S.rotate_left(v, off)), ("rotate_right", S.rotate_right(v, off))]
    return dict(inputs=[("value", v), ("offset", off, range(width + 1)), ("placeholder", ph)], outs=outs, ref=ref)


def scalar_narrow(width):
    """offset carried by a signal that is only as wide as needed for 0..width-1 (e.g. 8-bit value, 3-bit shift amount)"""
    from transactron.utils.amaranth_ext import shifter as S
    v = Signal(width)
    off = Signal(range(width))
    ph = Signal(1)

    def ref(vals):
        x, o, p = vals
        b = [(x >> i) & 1 for i in range(width)]
        return (_int(_shl(b, width, o, [p] * width)), _int(_shr(b, width, o, [p] * width)),
                _int(_shl(b, width, o, b)), _int(_shr(b, width, o, b)))

    outs = [("shift_left", S.shift_left(v, off, ph)), ("shift_right", S.shift_right(v, off, ph)),
            ("rotate_left", S.rotate_left(v, off)), ("rotate_right", S.rotate_right(v, off))]
    return dict(inputs=[("value", v), ("offset", off, range(width)), ("placeholder", ph)], outs=outs, ref=ref)


def scalar_const(width):
    """every constant (Python int) offset 0..width"""
    from transactron.utils.amaranth_ext import shifter as S
    v = Signal(width)
    ph = Signal(1)
    outs = []
    for o in range(width + 1):
        outs += [(f"shift_left({o})", S.shift_left(v, o, ph)), (f"shift_right({o})", S.shift_right(v, o, ph)),
                 (f"rotate_left({o})", S.rotate_left(v, o)), (f"rotate_right({o})", S.rotate_right(v, o))]

    def ref(vals):
        x, p = vals
        b = [(x >> i) & 1 for i in range(width)]
        out = []
        for o in range(width + 1):
            out += [_int(_shl(b, width, o, [p] * width)), _int(_shr(b, width, o, [p] * width)),
                    _int(_shl(b, width, o, b)), _int(_shr(b, width, o, b))]
        return tuple(out)

    return dict(inputs=[("value", v), ("placeholder", ph)], outs=outs, ref=ref)


def generic(width):
    from transactron.utils.amaranth_ext import shifter as S
    a, b = Signal(width), Signal(width)
    off = Signal(range(width + 1))

    def ref(vals):
        x, y, o = vals
        xb = [(x >> i) & 1 for i in range(width)]
        yb = [(y >> i) & 1 for i in range(width)]
        return (_int(_shr(xb, width, o, yb)), _int(_shl(xb, width, o, yb)))

    return dict(inputs=[("value1", a), ("value2", b), ("offset", off, range(width + 1))],
                outs=[("generic_shift_right", S.generic_shift_right(a, b, off)),
                      ("generic_shift_left", S.generic_shift_left(a, b, off))], ref=ref)


def vec(length, ew, kind, default_ph):
    """kind: 'plain' (Signals), 'struct' (views of a StructLayout), 'array' (views of an ArrayLayout)"""
    from transactron.utils.amaranth_ext import shifter as S
    if kind == "plain":
        shape = ew
    elif kind == "struct":
        shape = data.StructLayout({"a": 1, "b": ew - 1}) if ew > 1 else data.StructLayout({"a": 1})
    else:
        shape = data.ArrayLayout(1, ew)
    elems = [Signal(shape, name=f"e{i}") for i in range(length)]
    off = Signal(range(length + 1))
    ins = [(f"e{i}", e) for i, e in enumerate(elems)] + [("offset", off, range(length + 1))]
    if default_ph:
        ph = None
    else:
        ph = Signal(shape, name="ph")
        ins.append(("placeholder", ph))
    res = {
        "shift_vec_left": S.shift_vec_left(elems, off, ph),
        "shift_vec_right": S.shift_vec_right(elems, off, ph),
        "rotate_vec_left": S.rotate_vec_left(elems, off),
        "rotate_vec_right": S.rotate_vec_right(elems, off),
    }
    outs = []
    for name, seq in res.items():
        assert len(seq) == length
        for i, r in enumerate(seq):
            if kind != "plain":
                assert isinstance(r, data.View) and r.shape() == shape, (name, r)
                r = r.as_value()
            outs.append((f"{name}[{i}]", r))

    def ref(vals):
        xs = list(vals[:length])
        o = vals[length]
        p = 0 if default_ph else vals[length + 1]
        return tuple(_shl(xs, length, o, [p] * length) + _shr(xs, length, o, [p] * length)
                     + _shl(xs, length, o, xs) + _shr(xs, length, o, xs))

    return dict(inputs=ins, outs=outs, ref=ref)


def jobs(tier):
    js = []
    wmax = 6 if tier == "quick" else 9
    for w in range(1, wmax + 1):
        js.append(COMB("checks.c37", "scalar", {"width": w}))
        js.append(COMB("checks.c37", "scalar_const", {"width": w}))
        if w >= 2:
            js.append(COMB("checks.c37", "scalar_narrow", {"width": w}))
        if w <= 5:
            js.append(COMB("checks.c37", "scalar", {"width": w, "sgn": True}))
        if w <= (5 if tier == "quick" else 6):
            js.append(COMB("checks.c37", "generic", {"width": w}))
    for length in range(1, 5 if tier == "quick" else 6):
        for ew in (1, 2, 3):
            if length * ew > (9 if tier == "quick" else 12):
                continue
            for kind in ("plain", "struct", "array"):
                for dph in (False, True):
                    js.append(COMB("checks.c37", "vec", {"length": length, "ew": ew, "kind": kind, "default_ph": dph}))
    return js


def run(rep, tier):
    rep.rule = ("shift_left/right (explicit and default placeholder), rotate_left/right, generic_shift_left/right and the four "
                "vector variants (plain, struct-view and array-view elements; explicit and default placeholder) built by the "
                "real library for every width / length of the bound, evaluated by pysim on every value x offset x placeholder; "
                "compared with list-shuffling reference definitions")
    rep.assumptions = ["pysim semantics", "offset in 0..width (0..length for vectors): the documented 'number of bits/entries to "
                       "shift'; larger encodable offsets are outside the contract", "widths <= 6 / 9, vectors <= 4 / 5 entries "
                       "of <= 3 bits"]
    add_comb(rep, run_jobs(jobs(tier), chunksize=2))
    return {"states": 50, "transitions": 20000, "replayed": 100, "nt_distinct_outputs": 1000}
