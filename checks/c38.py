"""C38 -- encoders, multiplexers and selecting networks (every input valuation, bounded sizes)."""
from amaranth import Signal, Module, Elaboratable, Value
from amaranth.lib import data

from vlib.comb import COMB, add_comb
from vlib.runner import run_jobs

PROP = "C38"


def _setbits(x, order):
    return [i for i in order if (x >> i) & 1]


# ---- one-hot multiplexers ------------------------------------------------------------------

def _ohm_ref(n, w, priority, has_default, no_default_zero):
    """vals = (select, in0..in{n-1}[, default]) -> expected output or None (unspecified)."""
    def ref(vals):
        sel = vals[0]
        ins = vals[1:1 + n]
        dflt = vals[1 + n] if has_default else None
        bits = _setbits(sel, range(n))
        if not bits:
            if has_default:
                return (dflt,)
            if no_default_zero:      # OneHotMux docstring: zero when inputs_count > 1, the only value when == 1
                return (ins[0] if n == 1 else 0,)
            return (None,)
        if len(bits) > 1 and not priority:
            return (None,)
        return (ins[bits[0]],)
    return ref


def ohm_function(n, w, priority, has_default, view):
    from transactron.utils.amaranth_ext.functions import one_hot_mux
    shape = data.StructLayout({"a": 1, "b": w - 1}) if view and w > 1 else (data.StructLayout({"a": 1}) if view else w)
    sel = Signal(n)
    ins = [Signal(shape, name=f"in{i}") for i in range(n)]
    dflt = Signal(shape, name="dflt") if has_default else None
    r = one_hot_mux([(sel[i], ins[i]) for i in range(n)], default=dflt, priority=priority)
    if view:
        assert isinstance(r, data.View)
    inputs = [("select", sel)] + [(f"in{i}", s) for i, s in enumerate(ins)] + ([("default", dflt)] if has_default else [])
    return dict(inputs=inputs, outs=[("one_hot_mux", Value.cast(r))], ref=_ohm_ref(n, w, priority, has_default, False))


def ohm_class(n, w, priority, has_default, create):
    from transactron.utils.amaranth_ext.elaboratables import OneHotMux
    if create:
        sel = Signal(n)
        ins = [Signal(w, name=f"in{i}") for i in range(n)]
        dflt = Signal(w, name="dflt") if has_default else None

        class W(Elaboratable):
            def elaborate(self, platform):
                m = Module()
                self.out = OneHotMux.create(m, [(sel[i], ins[i]) for i in range(n)], dflt, priority=priority)
                m.d.comb += res.eq(self.out)
                return m

        res = Signal(w)
        inputs = [("select", sel)] + [(f"in{i}", s) for i, s in enumerate(ins)] + ([("default", dflt)] if has_default else [])
        return dict(inputs=inputs, outs=[("OneHotMux.create", res)], sub=[W()], ref=_ohm_ref(n, w, priority, has_default, True))
    mux = OneHotMux(w, n, priority=priority, has_default=has_default)
    inputs = [("select", mux.select), ("inputs", mux.inputs)] + ([("default", mux.default_input)] if has_default else [])
    base = _ohm_ref(n, w, priority, has_default, True)
    M = (1 << w) - 1

    def ref(vals):
        ins = tuple((vals[1] >> (i * w)) & M for i in range(n))
        return base((vals[0],) + ins + tuple(vals[2:]))

    return dict(inputs=inputs, outs=[("OneHotMux.output", mux.output)], sub=[mux], ref=ref)


# ---- priority encoders ---------------------------------------------------------------------

def mpe(width, outs, create):
    from transactron.utils.amaranth_ext.elaboratables import MultiPriorityEncoder
    if create:
        inp = Signal(width)
        box = {}

        class W(Elaboratable):
            def elaborate(self, platform):
                m = Module()
                pairs = MultiPriorityEncoder.create(m, width, inp, outs) if outs > 1 else [
                    MultiPriorityEncoder.create_simple(m, width, inp)]
                for k, (o, v) in enumerate(pairs):
                    m.d.comb += o_sigs[k].eq(o)
                    m.d.comb += v_sigs[k].eq(v)
                return m

        o_sigs = [Signal(range(width), name=f"o{k}") for k in range(outs)]
        v_sigs = [Signal(name=f"v{k}") for k in range(outs)]
        sub = [W()]
        o_list, v_list = o_sigs, v_sigs
    else:
        enc = MultiPriorityEncoder(width, outs)
        inp = enc.input
        sub = [enc]
        o_list = [enc.outputs[k] for k in range(outs)]
        v_list = [enc.valids[k] for k in range(outs)]

    def ref(vals):
        bits = _setbits(vals[0], range(width))
        o = tuple(bits[k] if k < len(bits) else None for k in range(outs))
        v = tuple(int(k < len(bits)) for k in range(outs))
        return o + v

    return dict(inputs=[("input", inp)], outs=[(f"outputs[{k}]", o) for k, o in enumerate(o_list)]
                + [(f"valids[{k}]", v) for k, v in enumerate(v_list)], sub=sub, ref=ref)


def rmpe(width, outs):
    from transactron.utils.amaranth_ext.elaboratables import RingMultiPriorityEncoder
    enc = RingMultiPriorityEncoder(width, outs)

    def ref(vals):
        x, first, last = vals
        order = list(range(first, last)) if first <= last else list(range(first, width)) + list(range(0, last))
        bits = _setbits(x, order)
        o = tuple(bits[k] if k < len(bits) else None for k in range(outs))
        v = tuple(int(k < len(bits)) for k in range(outs))
        return o + v

    return dict(inputs=[("input", enc.input), ("first", enc.first, range(width)), ("last", enc.last, range(width))],
                outs=[(f"outputs[{k}]", enc.outputs[k]) for k in range(outs)]
                + [(f"valids[{k}]", enc.valids[k]) for k in range(outs)], sub=[enc], ref=ref)


def ssn(n, w):
    from transactron.utils.amaranth_ext.elaboratables import StableSelectingNetwork
    net = StableSelectingNetwork(n, w)
    M = (1 << w) - 1

    def ref(vals):
        ins, valids = vals
        items = [(ins >> (i * w)) & M for i in range(n) if (valids >> i) & 1]
        return tuple(items[k] if k < len(items) else None for k in range(n)) + (len(items),)

    return dict(inputs=[("inputs", net.inputs), ("valids", net.valids)],
                outs=[(f"outputs[{k}]", net.outputs[k]) for k in range(n)] + [("output_cnt", net.output_cnt)],
                sub=[net], ref=ref)


# ---- coding module --------------------------------------------------------------------------

def coding(cls, width):
    from transactron.utils.amaranth_ext import coding as C
    c = getattr(C, cls)(width)
    if cls == "Encoder":
        def ref(v):
            x = v[0]
            onehot = x != 0 and x & (x - 1) == 0
            return (x.bit_length() - 1, 0) if onehot else (0, 1)
        return dict(inputs=[("i", c.i)], outs=[("o", c.o), ("n", c.n)], sub=[c], ref=ref)
    if cls == "PriorityEncoder":
        def ref(v):
            x = v[0]
            return ((x & -x).bit_length() - 1, 0) if x else (0, 1)
        return dict(inputs=[("i", c.i)], outs=[("o", c.o), ("n", c.n)], sub=[c], ref=ref)
    if cls in ("Decoder", "PriorityDecoder"):
        return dict(inputs=[("i", c.i, range(width)), ("n", c.n)], outs=[("o", c.o)], sub=[c],
                    ref=lambda v: (0 if v[1] else 1 << v[0],))
    if cls == "GrayEncoder":
        return dict(inputs=[("i", c.i)], outs=[("o", c.o)], sub=[c], ref=lambda v: (v[0] ^ (v[0] >> 1),))
    if cls == "GrayDecoder":
        def ref(v):
            g, b = v[0], 0
            while g:
                b ^= g
                g >>= 1
            return (b,)
        return dict(inputs=[("i", c.i)], outs=[("o", c.o)], sub=[c], ref=ref)
    raise ValueError(cls)


def gray_roundtrip(width):
    from transactron.utils.amaranth_ext import coding as C
    e, d = C.GrayEncoder(width), C.GrayDecoder(width)
    x = Signal(width)
    nxt = Signal(width)

    class W(Elaboratable):
        def elaborate(self, platform):
            m = Module()
            m.submodules.e = e
            m.submodules.d = d
            m.submodules.e2 = e2
            m.d.comb += [e.i.eq(x), d.i.eq(e.o), e2.i.eq(x + 1)]
            return m

    e2 = C.GrayEncoder(width)
    # decode(encode(x)) == x; successive codes differ in exactly one bit
    return dict(inputs=[("x", x)], outs=[("roundtrip", d.o), ("hamming", e.o ^ e2.o)], sub=[W()],
                ref=lambda v: (v[0], None))


def gray_adjacent(width):
    spec = gray_roundtrip(width)

    def ref(v, M=(1 << width) - 1):
        return (v[0], None)
    return spec


# ---- one-hot switch ---------------------------------------------------------------------------

def ohswitch(width, default, tmodule):
    from transactron.utils.amaranth_ext.elaboratables import OneHotSwitchDynamic
    test = Signal(width)
    res = Signal(range(width + 2))

    class W(Elaboratable):
        def elaborate(self, platform):
            if tmodule:
                from transactron import TModule
                m = TModule()
            else:
                m = Module()
            m.d.comb += res.eq(width + 1)
            for i in OneHotSwitchDynamic(m, test, default=default):
                m.d.comb += res.eq(width if i is None else i)
            return m

    def ref(v):
        x = v[0]
        if x != 0 and x & (x - 1) == 0:
            return (x.bit_length() - 1,)
        return (width if default else width + 1,)

    return dict(inputs=[("test", test)], outs=[("matched", res)], sub=[W()], ref=ref)


def jobs(tier):
    js = []
    q = tier == "quick"
    for n in range(0, 5 if q else 6):
        for w in (1, 2):
            if n * w > (8 if q else 10):
                continue
            for pr in (False, True):
                for hd in (False, True):
                    if n == 0 and not hd:
                        continue
                    for view in (False, True):
                        js.append(COMB("checks.c38", "ohm_function",
                                       {"n": n, "w": w, "priority": pr, "has_default": hd, "view": view}))
                    for create in (False, True):
                        if create and n == 0:
                            continue
                        js.append(COMB("checks.c38", "ohm_class",
                                       {"n": n, "w": w, "priority": pr, "has_default": hd, "create": create}))
    for width in range(1, 7 if q else 10):
        for outs in (1, 2, 3) if q else (1, 2, 3, 4):
            js.append(COMB("checks.c38", "mpe", {"width": width, "outs": outs, "create": False}))
            if width <= 4:
                js.append(COMB("checks.c38", "mpe", {"width": width, "outs": outs, "create": True}))
    for width in range(1, 6 if q else 8):
        for outs in (1, 2) if q else (1, 2, 3):
            js.append(COMB("checks.c38", "rmpe", {"width": width, "outs": outs}))
    for n in range(1, 6 if q else 7):
        for w in (1, 2):
            if n * (w + 1) > (12 if q else 15):
                continue
            js.append(COMB("checks.c38", "ssn", {"n": n, "w": w}))
    for cls in ("Encoder", "PriorityEncoder", "Decoder", "PriorityDecoder", "GrayEncoder", "GrayDecoder"):
        for width in range(1, 7 if q else 11):
            js.append(COMB("checks.c38", "coding", {"cls": cls, "width": width}))
    for width in range(1, 7 if q else 11):
        js.append(COMB("checks.c38", "gray_roundtrip", {"width": width}))
    for width in range(1, 6):
        for d in (False, True):
            for tm in (False, True):
                js.append(COMB("checks.c38", "ohswitch", {"width": width, "default": d, "tmodule": tm}))
    return js


def run(rep, tier):
    rep.rule = ("one_hot_mux / OneHotMux (direct and via create; plain and struct inputs; priority x default), "
                "MultiPriorityEncoder (direct, create, create_simple), RingMultiPriorityEncoder (all first/last), "
                "StableSelectingNetwork, Encoder/PriorityEncoder/Decoder/PriorityDecoder/GrayEncoder/GrayDecoder (+ Gray "
                "round trip) and OneHotSwitchDynamic are instantiated for every size of the bound and evaluated by pysim on "
                "every input valuation; outputs the documentation leaves undefined (non-one-hot select without priority, "
                "no select without default for the function form, invalid encoder outputs, selecting-network tail) are not "
                "compared")
    rep.assumptions = ["pysim semantics", "sizes: mux <= 4/5 inputs of 1-2 bits, encoders width <= 6/9, ring encoder width <= 5/7, "
                       "selecting network n <= 5/6, coding width <= 6/10", "binary inputs declared with range(n) are driven "
                       "with values < n only"]
    add_comb(rep, run_jobs(jobs(tier), chunksize=2))
    return {"states": 150, "transitions": 20000, "replayed": 300, "nt_distinct_outputs": 1000}
