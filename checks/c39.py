"""C39 -- OneHotRoundRobin / RoundRobin grant fairly (complete BFS x wait-counter monitor)."""
from vlib.ports import RawHarness
from vlib.runner import E1, run_jobs, run_big

PROP = "C39"


class OneHotRRH(RawHarness):
    def make(self):
        from transactron.utils.amaranth_ext.elaboratables import OneHotRoundRobin
        rr = OneHotRoundRobin(self.cfg["count"])
        return rr, [("requests", rr.requests)], [("grant", rr.grant), ("valid", rr.valid)]

    def init(self):
        return (0,) * self.cfg["count"]

    def step(self, waits, inp, obs):
        n = self.cfg["count"]
        req = inp[0]
        grant, valid = obs
        v = []
        if valid != (1 if req else 0):
            v.append(f"valid: valid={valid} requests={req:b}")
        if req:
            if grant == 0 or grant & (grant - 1):
                v.append(f"onehot: grant={grant:b} is not one-hot while requests={req:b}")
            elif not grant & req:
                v.append(f"granted_requester: grant={grant:b} is not among requests={req:b}")
        eff = grant if valid else 0      # 'grants none' = valid low (the grant pins keep the previous grant)
        nw = []
        for i in range(n):
            if (req >> i) & 1 and not (eff >> i) & 1:
                w = waits[i] + 1
                if w >= n:
                    v.append(f"fairness: requester {i} requested for {w} consecutive cycles without a grant (count={n})")
                nw.append(w)
            else:
                nw.append(0)
        if v:
            return v, waits
        if req and req & (req - 1):
            self.count("nt_contended")
        if max(nw, default=0) == n - 1 and n > 1:
            self.count("nt_waited_longest")
        return v, tuple(nw)


class RoundRobinH(RawHarness):
    """grant/valid are registers: the clauses are stated on (requests at t, grant/valid at t+1)."""

    def make(self):
        from transactron.utils.amaranth_ext.elaboratables import RoundRobin
        rr = RoundRobin(count=self.cfg["count"])
        return rr, [("requests", rr.requests)], [("grant", rr.grant), ("valid", rr.valid)]

    def init(self):
        return (None, (0,) * self.cfg["count"])

    def step(self, ref, inp, obs):
        n = self.cfg["count"]
        prev, waits = ref
        grant, valid = obs
        v = []
        nw = list(waits)
        if prev is None:
            if valid:
                v.append("valid: valid high out of reset")
        else:
            if valid != (1 if prev else 0):
                v.append(f"valid: valid={valid} after requests={prev:b}")
            if valid and prev and not (prev >> grant) & 1:
                v.append(f"granted_requester: grant={grant} does not designate one of the requesters {prev:b}")
            if grant >= n:
                v.append(f"grant_range: grant={grant} >= count={n}")
            for i in range(n):
                if (prev >> i) & 1 and not (valid and grant == i):
                    nw[i] = waits[i] + 1
                    if nw[i] >= n:
                        v.append(f"fairness: requester {i} requested for {nw[i]} consecutive cycles without a grant")
                else:
                    nw[i] = 0
        if v:
            return v, ref
        if prev and prev & (prev - 1):
            self.count("nt_contended")
        if n > 1 and max(nw) == n - 1:
            self.count("nt_waited_longest")
        return v, (inp[0], tuple(nw))


def jobs(tier):
    oh, rr = (5, 4) if tier == "quick" else (6, 5)
    js = [E1("checks.c39", "OneHotRRH", {"count": n}) for n in range(1, oh + 1)]
    js += [E1("checks.c39", "RoundRobinH", {"count": n}) for n in range(1, rr + 1)]
    return js


def run(rep, tier):
    rep.rule = ("complete BFS of OneHotRoundRobin and RoundRobin (count 1..5/1..4 quick, 1..6/1..5 thorough) over the grant register x a "
                "monitor with one wait counter per requester, every request vector in every state: valid iff any request; "
                "one-hot grant among the requesters (OneHotRoundRobin, same cycle) / grant designates a requester of the "
                "previous cycle when valid (RoundRobin, registered outputs); no requester waits count consecutive cycles")
    rep.assumptions = ["pysim semantics", "'grants none' is read as valid low (OneHotRoundRobin's grant pins keep the previous "
                       "one-hot value when nothing is requested; the schedulers gate grant with valid)",
                       "RoundRobin outputs are registered: clauses relate requests at t with grant/valid at t+1"]
    js = jobs(tier)
    rep.add_e1(run_jobs(js[:-1]))
    rep.add_e1(run_big(js[-1:]) if tier == "thorough" else run_jobs(js[-1:]))
    return {"states": 200, "transitions": 2000, "replayed": 10, "nt_contended": 500, "nt_waited_longest": 20}
