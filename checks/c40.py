"""C40 -- structured assignment copies exactly the selected fields.

Universe: every ordered pair of small structured values (Views over struct / array / union layouts of depth <= 2, dicts and
lists of the same shapes, bare signals, integer constants inside dicts) x every field-selection mode.  For every case the real
`assign` is called; it must raise exactly when the reference (written from the docstring) says a selected field is missing
or two explicit shapes differ; otherwise the returned statements are executed by pysim for every valuation of the right-hand
side and every bit of the left-hand side must be either the selected right-hand bit or its untouched reset value."""
import itertools
import traceback

from amaranth import Signal, Module, Elaboratable, Shape, Value, Const
from amaranth.lib import data

from vlib.enumr import ENUM, add_enum
from vlib.runner import run_jobs
from vlib.tsx import Driver

PROP = "C40"


# ---- descriptors -------------------------------------------------------------------------------------------------------
# ("sig", w) | ("struct", ((name, desc), ...)) | ("array", w, n) | ("union", ((name, w), ...))      -> View / Signal
# ("dict", ((name, vdesc), ...)) | ("list", (vdesc, ...)) | ("const", v)                              -> python containers

def layout_of(d):
    if d[0] == "sig":
        return d[1]
    if d[0] == "struct":
        return data.StructLayout({n: layout_of(x) for n, x in d[1]})
    if d[0] == "array":
        return data.ArrayLayout(d[1], d[2])
    if d[0] == "union":
        return data.UnionLayout({n: w for n, w in d[1]})
    raise ValueError(d)


class Node:
    """a built value together with where its bits live"""

    def __init__(self, kind, obj, root=None, off=0, width=0, shape=None, children=None, const=None):
        self.kind, self.obj, self.root, self.off, self.width = kind, obj, root, off, width
        self.shape, self.children, self.const = shape, children, const


def sub_nodes(root, lay, off):
    """children of a view over layout object `lay` living at bit offset `off` of `root`"""
    out = {}
    if isinstance(lay, (data.StructLayout, data.UnionLayout)):
        items = [(n, f) for n, f in lay]
    elif isinstance(lay, data.ArrayLayout):
        items = [(n, f) for n, f in lay]
    else:
        return None
    for n, f in items:
        sh = f.shape
        w = sh.size if isinstance(sh, data.Layout) else Shape.cast(sh).width
        kind = "view" if isinstance(sh, data.Layout) else "slice"
        out[n] = Node(kind, None, root, off + f.offset, w, sh, sub_nodes(root, sh, off + f.offset) if kind == "view" else None)
    return out


def build(d, name, sigs, init_ones, sels=None):
    sels = sels if sels is not None else []
    if d[0] in ("sig", "struct", "array", "union"):
        lay = layout_of(d)
        w = lay.size if isinstance(lay, data.Layout) else lay
        root = Signal(w, name=name, init=(1 << w) - 1 if init_ones else 0)
        s = data.View(lay, root) if isinstance(lay, data.Layout) else root
        sigs.append(root)
        if d[0] == "sig":
            return Node("sig", s, root, 0, w, Shape.cast(lay))
        n = Node("view", s, root, 0, w, lay, sub_nodes(root, lay, 0))
        attach_objs(n)
        return n
    if d[0] == "dict":
        ch = {k: build(x, f"{name}_{k}", sigs, init_ones, sels) for k, x in d[1]}
        return Node("dict", {k: c.obj for k, c in ch.items()}, children=ch)
    if d[0] == "list":
        ch = {k: build(x, f"{name}_{k}", sigs, init_ones, sels) for k, x in enumerate(d[1])}
        return Node("list", [ch[k].obj for k in range(len(ch))], children=ch)
    if d[0] == "const":
        return Node("const", d[1], const=d[1])
    if d[0] == "proxy":
        # ("proxy", (elem desc, ...)): Array([...])[sel] -- an ArrayProxy over Views / Signals, sel is a free input
        from amaranth import Array
        elems = [build(x, f"{name}_e{k}", sigs, init_ones, sels) for k, x in enumerate(d[1])]
        sel = Signal(range(len(elems)), name=f"{name}_sel") if len(elems) > 1 else None
        if sel is not None:
            sels.append(sel)
        obj = Array([e.obj for e in elems])[sel if sel is not None else Const(0, 1)]
        return proxy_node(obj, elems, sel)
    raise ValueError(d)


def proxy_node(obj, elems, sel):
    n = Node("proxy", obj, width=max(e.width for e in elems), shape=Shape(max(e.width for e in elems), False))
    n.elems, n.sel = elems, sel
    if all(e.kind == "view" and isinstance(e.shape, data.StructLayout) for e in elems):
        common = set.intersection(*[set(e.children) for e in elems])
        n.children = {k: proxy_node(obj[k], [e.children[k] for e in elems], sel) for k in common}
        n.proxy_fields = common
    else:
        n.proxy_fields = None
    return n


def resolve(n, selvals):
    while n.kind == "proxy":
        idx = min(selvals[id(n.sel)], len(n.elems) - 1) if n.sel is not None else 0
        n = n.elems[idx]
    return n


def attach_objs(n):
    if n.children:
        for k, c in n.children.items():
            c.obj = n.obj[k]
            attach_objs(c)


# ---- reference ---------------------------------------------------------------------------------------------------------

class RefRaise(Exception):
    pass


def fields_of(n):
    if n.kind == "view":
        if isinstance(n.shape, data.StructLayout):
            return set(k for k, _ in n.shape)
        if isinstance(n.shape, data.ArrayLayout):
            return set(range(n.shape.length))
        return None
    if n.kind in ("dict", "list"):
        return set(n.children.keys())
    if n.kind == "proxy":      # an ArrayProxy over struct Views offers the fields common to all its elements
        return set(n.proxy_fields) if n.proxy_fields is not None else None
    return None


def is_union(n):
    return n.kind == "view" and isinstance(n.shape, data.UnionLayout)


MODES = {"COMMON": 1, "LHS": 2, "RHS": 3, "ALL": 4}


def ref_assign(l, r, fields, pairs):
    lf, rf = fields_of(l), fields_of(r)

    def rec(name):
        sub = fields
        if isinstance(fields, dict):
            sub = fields[name]
        elif isinstance(fields, (list, tuple)):
            sub = "ALL"
        ref_assign(l.children[name], r.children[name], sub, pairs)

    if lf is not None and rf is not None:
        if fields == "COMMON":
            names = lf & rf
        elif fields == "LHS":
            names = lf
        elif fields == "RHS":
            names = rf
        elif fields == "ALL":
            names = lf | rf
        else:
            names = set(fields)
        if not names and (lf or rf):
            raise RefRaise("no fields selected")
        for nm in sorted(names, key=str):
            if nm not in lf or nm not in rf:
                raise RefRaise(f"selected field {nm} missing")
        for nm in sorted(names, key=str):
            rec(nm)
        return
    if (is_union(l) and r.kind == "dict") or (l.kind == "dict" and is_union(r)):
        mp, un = (l, r) if l.kind == "dict" else (r, l)
        if len(mp.children) != 1:
            raise RefRaise("non-singleton mapping on union")
        nm = next(iter(mp.children))
        if nm not in un.children:
            raise RefRaise("field not in union")
        rec(nm)
        return
    if not isinstance(fields, str):
        raise RefRaise("field selection on non-structures")
    if l.kind in ("dict", "list") or r.kind in ("dict", "list"):
        raise RefRaise("structure assigned to/from a plain value")
    if l.kind == "const":
        raise RefRaise("constant on the left")
    while fields_of(l) is not None and len(fields_of(l)) == 1:
        l = l.children[next(iter(fields_of(l)))]
    while fields_of(r) is not None and len(fields_of(r)) == 1:
        r = r.children[next(iter(fields_of(r)))]
    # the width check is performed if any side is a View, or both sides have an explicit shape (signals, fields of views);
    # a bare integer constant has no explicit shape
    if r.kind != "const" or l.kind == "view":
        ls = l.shape if isinstance(l.shape, data.Layout) else Shape.cast(l.shape)
        rs = Const(r.const).shape() if r.kind == "const" else (
            r.shape if isinstance(r.shape, data.Layout) else Shape.cast(r.shape))
        if ls != rs:
            raise RefRaise(f"shape mismatch {ls!r} vs {rs!r}")
    pairs.append((l, r))


# ---- universe ----------------------------------------------------------------------------------------------------------

def value_descs(tier):
    W = (1, 2)
    leaves = [("sig", w) for w in W]
    s1 = []
    for w in W:
        s1 += [("struct", (("a", ("sig", w)),)), ("struct", (("b", ("sig", w)),))]
    for w, w2 in itertools.product(W, W):
        s1.append(("struct", (("a", ("sig", w)), ("b", ("sig", w2)))))
    s1.append(("struct", (("b", ("sig", 1)), ("a", ("sig", 2)))))       # same fields, other order
    arrays = [("array", w, n) for w in W for n in (1, 2)]
    nested_inner = [("struct", (("x", ("sig", 1)),)), ("struct", (("x", ("sig", 1)), ("y", ("sig", 2)))),
                    ("struct", (("y", ("sig", 2)),)), ("array", 1, 2)]
    s2 = []
    for x in nested_inner:
        s2.append(("struct", (("a", x),)))
        s2.append(("struct", (("a", x), ("b", ("sig", 1)))))
    unions = [("union", (("a", 1), ("b", 2)))]
    views = leaves + s1 + arrays + s2 + unions

    def as_container(d, nested_as_view):
        if d[0] == "struct":
            return ("dict", tuple((n, (x if (x[0] == "sig" or nested_as_view) else as_container(x, False))) for n, x in d[1]))
        if d[0] == "array":
            return ("list", tuple(("sig", d[1]) for _ in range(d[2])))
        return d

    conts = [as_container(d, False) for d in s1 + arrays + s2]
    conts += [as_container(d, True) for d in s2]
    conts += [("dict", (("a", ("const", 1)),)), ("dict", (("a", ("const", 1)), ("b", ("sig", 1)))),
              ("dict", (("c", ("sig", 1)),)), ("dict", ()), ("list", (("const", 1), ("sig", 1)))]
    sa1 = ("struct", (("a", ("sig", 1)),))
    sab = ("struct", (("a", ("sig", 1)), ("b", ("sig", 1))))
    proxies = [("proxy", (sab, sa1)), ("proxy", (("sig", 1), ("sig", 1)))]      # ArrayProxy over Views / over signals
    if tier != "quick":
        proxies += [("proxy", (sab, sab)), ("proxy", (sa1,)), ("proxy", (("struct", (("a", sa1),)), ("struct", (("a", sa1),))))]
    out = []
    for d in views + conts + proxies:
        if d not in out:
            out.append(d)
    if tier == "quick":
        return out
    extra = [("struct", (("a", ("struct", (("x", ("sig", 2)),))), ("b", ("array", 2, 2)))), ("array", 2, 3),
             ("struct", (("a", ("sig", 1)), ("b", ("sig", 1)), ("c", ("sig", 2))))]
    return out + extra + [as_container(d, False) for d in extra]


FIELD_MODES = ["RHS", "COMMON", "LHS", "ALL", ["a"], ["b"], ["a", "b"], [0], [0, 1], [], {"a": "ALL"}, {"a": ["x"]},
               {"a": "COMMON", "b": "RHS"}, {"a": {"x": "ALL"}}]


def to_fields(f):
    from transactron.utils.assign import AssignType
    if isinstance(f, str):
        return AssignType[f]
    if isinstance(f, dict):
        return {k: to_fields(v) for k, v in f.items()}
    return list(f)


def has_lhs_const(d):
    return d[0] == "const" or (d[0] in ("dict", "list") and any(has_lhs_const(x if d[0] == "list" else x[1]) for x in d[1]))


class _Top(Elaboratable):
    def __init__(self, stmts):
        self.stmts = stmts

    def elaborate(self, platform):
        m = Module()
        for s in self.stmts:
            m.d.comb += s
        return m


def cases(tier, start, stop):
    """cases[start:stop] of the (lhs, rhs) pair list, each with every field mode"""
    from transactron.utils.assign import assign
    descs = value_descs(tier)
    pairs = [(a, b) for a in descs for b in descs if not has_lhs_const(a)]
    for pi in range(start, min(stop, len(pairs))):
        ld, rd = pairs[pi]
        batch = []          # (case id, lsigs, rsigs, expected pairs)
        stmts_all = []
        for fi, f in enumerate(FIELD_MODES):
            case = [pi, fi]
            lsigs, rsigs, sels = [], [], []
            l = build(ld, f"l{fi}", lsigs, True, sels)
            r = build(rd, f"r{fi}", rsigs, False, sels)
            rsigs = rsigs + sels          # index signals of ArrayProxies (on either side) are driven inputs
            exp = []
            try:
                ref_assign(l, r, f, exp)
                ref_raises = None
            except RefRaise as e:
                ref_raises = str(e)
            except KeyError as e:
                ref_raises = f"selection names a field that does not exist: {e}"
            try:
                stmts = list(assign(l.obj, r.obj, fields=to_fields(f)))
                got_raises = None
            except Exception as e:
                got_raises = f"{type(e).__name__}: {str(e)[:80]}"
            tags = []
            if ref_raises and got_raises:
                yield case, None, ["nt_raises"]
                continue
            if ref_raises and not got_raises:
                yield case, (f"accepted: assign({ld}, {rd}, fields={f}) returned {len(stmts)} statements, the reference "
                             f"says it must raise ({ref_raises})"), []
                continue
            if got_raises:
                yield case, (f"raised: assign({ld}, {rd}, fields={f}) raised {got_raises}, the reference selects "
                             f"{len(exp)} leaf pairs without any missing field or shape mismatch"), []
                continue
            batch.append((case, lsigs, rsigs, exp, f))
            stmts_all += stmts
        if not batch:
            continue
        # execute all accepted cases of this pair in one simulator (disjoint signals)
        all_r = [s for _, _, rs, _, _ in batch for s in rs]
        all_l = [s for _, ls, _, _, _ in batch for s in ls]
        try:
            drv = Driver(_Top(stmts_all), [(s.name, s) for s in all_r], [(s.name, s) for s in all_l])
        except Exception as e:
            yield [pi, "build"], f"statements do not elaborate: {type(e).__name__}: {str(e)[:120]}", []
            continue
        kmax = max(sum(len(s) for s in rs) for _, _, rs, _, _ in batch)
        verdict = {tuple(c): None for c, *_ in batch}
        for v in range(1 << kmax):
            vals = []
            for _, _, rs, _, _ in batch:
                sh = 0
                for s in rs:
                    vals.append((v >> sh) & ((1 << len(s)) - 1))
                    sh += len(s)
            obs = drv.apply(tuple(vals))
            oi = ri = 0
            for case, ls, rs, exp, f in batch:
                rvals = {id(s): vals[ri + k] for k, s in enumerate(rs)}
                lvals = {id(s): obs[oi + k] for k, s in enumerate(ls)}
                ri += len(rs)
                oi += len(ls)
                if verdict[tuple(case)]:
                    continue
                want = {id(s): (1 << len(s)) - 1 for s in ls}
                for ln, rn in exp:
                    ln, rn = resolve(ln, rvals), resolve(rn, rvals)      # ArrayProxy -> the element the index selects
                    if rn.kind == "const":
                        val = rn.const
                    else:
                        val = (rvals[id(rn.root)] >> rn.off) & ((1 << rn.width) - 1)
                    mask = ((1 << ln.width) - 1) << ln.off
                    want[id(ln.root)] = (want[id(ln.root)] & ~mask) | ((val << ln.off) & mask)
                for s in ls:
                    if lvals[id(s)] != want[id(s)]:
                        verdict[tuple(case)] = (f"effect: assign({ld}, {rd}, fields={f}) with rhs bits {v:#b}: lhs signal "
                                                f"{s.name} = {lvals[id(s)]:#b}, expected {want[id(s)]:#b} (selected fields "
                                                f"copied, everything else untouched)")
                        break
        for case, ls, rs, exp, f in batch:
            tags = ["nt_executed"]
            if exp and sum(x[0].width for x in exp) < sum(len(s) for s in ls):
                tags.append("nt_partial_selection")
            yield case, verdict[tuple(case)], tags


def npairs(tier):
    descs = value_descs(tier)
    return sum(1 for a in descs for b in descs if not has_lhs_const(a))


def run(rep, tier):
    rep.rule = ("every ordered pair of ~75 structured values (Views over struct/array/union layouts of depth <= 2 with 1-2 bit "
                "leaves, dict/list forms incl. dicts of Views and integer constants, bare signals) x 14 field selections (the four "
                "AssignType modes, name lists, nested mappings): the real assign() raises exactly when the reference says a "
                "selected field is missing / a structure meets a plain value / two explicit shapes differ; otherwise its "
                "statements are executed by pysim on every right-hand valuation and every left-hand bit is compared (selected "
                "bits copied, all others keep their all-ones reset value)")
    rep.assumptions = ["pysim semantics", "the reference selection semantics is transcribed from assign()'s docstring",
                       "leaf widths 1-2, depth <= 2, field names a/b/c/x/y"]
    n = npairs(tier)
    chunk = 40
    js = [ENUM("checks.c40", "cases", {"tier": tier, "start": s, "stop": s + chunk}) for s in range(0, n, chunk)]
    add_enum(rep, run_jobs(js))
    return {"transitions": 20000, "nt_raises": 5000, "nt_executed": 2000, "nt_partial_selection": 300}
