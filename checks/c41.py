"""C41 -- data helpers: transpose / transpose_layout, signed_to_int / int_to_signed, align_*, make_hashable."""
import itertools

from amaranth import Signal, signed
from amaranth.lib import data

from vlib.comb import COMB, add_comb
from vlib.enumr import ENUM, add_enum
from vlib.runner import run_jobs

PROP = "C41"


def mk_layout(ko, ki, no, ni, wmode):
    """two-level layout; wmode: 'one' (all 1 bit), 'mix' (widths 1/2 varying as far as the layout kind allows), 'signed'"""
    def w(o, i):
        if wmode == "one":
            return 1
        if wmode == "signed":
            return signed(2)
        if ko == "struct" and ki == "struct":
            return 1 + (o + 2 * i) % 2 if (o + i) % 3 else 2
        if ko == "struct":       # inner arrays are homogeneous, may differ between outer fields
            return 1 + o % 2
        if ki == "struct":       # outer array: every element has the same struct
            return 1 + i % 2
        return 2

    def inner(o):
        if ki == "struct":
            return data.StructLayout({f"i{i}": w(o, i) for i in range(ni)})
        return data.ArrayLayout(w(o, 0), ni)

    if ko == "struct":
        return data.StructLayout({f"o{o}": inner(o) for o in range(no)})
    return data.ArrayLayout(inner(0), no)


def _keys(kind, n, prefix):
    return [f"{prefix}{k}" for k in range(n)] if kind == "struct" else list(range(n))


def _bits(x):
    return x.as_bits() if isinstance(x, data.Const) else (x & 0xFFFFFFFF if x >= 0 else x)


def transpose_const(ko, ki, no, ni, wmode):
    """every bit pattern of the layout as a data.Const"""
    from transactron.utils.amaranth_ext.data import transpose, transpose_layout, transpose_layout_with_keys, layout_keys
    L = mk_layout(ko, ki, no, ni, wmode)
    ok_, ik_ = _keys(ko, no, "o"), _keys(ki, ni, "i")
    case0 = ["layout"]
    try:
        TL, ok2, ik2 = transpose_layout_with_keys(L)
        bad = None
        if list(ok2) != ok_ or list(ik2) != ik_:
            bad = f"keys: returned {list(ok2)} / {list(ik2)}"
        elif list(layout_keys(TL)) != ik_ or any(list(layout_keys(TL[i].shape)) != ok_ for i in ik_):
            bad = f"transposed_layout.keys: {TL!r}"
        elif any(TL[i].shape[o].shape != L[o].shape[i].shape for o in ok_ for i in ik_):
            bad = "transposed_layout.leaf_shapes differ"
        elif transpose_layout(TL) != L:
            bad = f"involution.layout: transposing twice gives {transpose_layout(TL)!r}, not {L!r}"
        elif TL.size != L.size:
            bad = "size changed"
    except Exception as e:
        bad = f"raises: {type(e).__name__}: {e}"
        TL = None
    yield case0, bad, ["nt_layouts"]
    if bad:
        return
    for p in range(1 << L.size):
        c = L.from_bits(p)
        bad = None
        try:
            t = transpose(c)
            if not isinstance(t, data.Const) or t.shape() != TL:
                bad = f"result type/shape: {t!r}"
            else:
                for o in ok_:
                    for i in ik_:
                        if _bits(t[i][o]) != _bits(c[o][i]):
                            bad = f"swap: transpose(v)[{i}][{o}] = {t[i][o]!r} but v[{o}][{i}] = {c[o][i]!r}"
                            break
                    if bad:
                        break
                if not bad:
                    tt = transpose(t)
                    if tt.shape() != L or tt.as_bits() != p:
                        bad = f"involution.value: transposing twice gives {tt.as_bits():#b}, not {p:#b}"
        except Exception as e:
            bad = f"raises: {type(e).__name__}: {e}"
        yield [p], bad, ["nt_const_patterns"] + (["nt_asymmetric_pattern"] if not bad and t.as_bits() != p else [])


def transpose_view(ko, ki, no, ni, wmode):
    """comb spec: transpose of a View over a free signal, every valuation"""
    from transactron.utils.amaranth_ext.data import transpose, transpose_layout
    L = mk_layout(ko, ki, no, ni, wmode)
    s = Signal(L)
    t = transpose(s)
    assert isinstance(t, data.View) and t.shape() == transpose_layout(L)
    tt = transpose(t)
    ok_, ik_ = _keys(ko, no, "o"), _keys(ki, ni, "i")
    outs = [(f"t[{i}][{o}]", t[i][o]) for i in ik_ for o in ok_] + [("twice", tt.as_value())]
    ref_c = {}

    def ref(vals):
        c = L.from_bits(vals[0])
        return tuple(c[o][i] if not isinstance(c[o][i], data.Const) else c[o][i].as_bits() for i in ik_ for o in ok_) + (vals[0],)

    return dict(inputs=[("view", s)], outs=outs, ref=ref)


def transpose_invalid():
    from transactron.utils.amaranth_ext.data import transpose_layout
    S, A, U = data.StructLayout, data.ArrayLayout, data.UnionLayout
    bads = {
        "union": U({"a": S({"x": 1}), "b": S({"x": 1})}),
        "empty_struct": S({}),
        "empty_array": A(S({"x": 1}), 0),
        "plain_fields": S({"a": 1, "b": 2}),
        "mixed_fields": S({"a": S({"x": 1}), "b": 1}),
        "inner_empty": S({"a": S({}), "b": S({})}),
        "different_keys": S({"a": S({"x": 1}), "b": S({"y": 1})}),
        "different_key_order": S({"a": S({"x": 1, "y": 1}), "b": S({"y": 1, "x": 1})}),
        "struct_vs_array": S({"a": S({"x": 1}), "b": A(1, 1)}),
        "different_lengths": S({"a": A(1, 1), "b": A(1, 2)}),
        "inner_union": S({"a": U({"x": 1})}),
    }
    for name, lay in bads.items():
        try:
            r = transpose_layout(lay)
            yield [name], f"accepted: transpose_layout({name}) returned {r!r} instead of raising ValueError", ["nt_invalid"]
        except ValueError:
            yield [name], None, ["nt_invalid"]
        except Exception as e:
            yield [name], f"wrong_exception: {type(e).__name__}", ["nt_invalid"]


def signed_conv(xmax):
    from transactron.utils.data_repr import signed_to_int, int_to_signed
    for n in range(1, xmax + 1):
        for x in range(-(1 << (n - 1)), 1 << (n - 1)):
            u = int_to_signed(x, n)
            bad = None
            if u != x % (1 << n):
                bad = f"int_to_signed({x},{n}) = {u}, expected {x % (1 << n)}"
            elif signed_to_int(u, n) != x:
                bad = f"inverse: signed_to_int(int_to_signed({x},{n}),{n}) = {signed_to_int(u, n)}"
            yield [n, x], bad, ["nt_negative"] if x < 0 else []
        for u in range(1 << n):
            x = signed_to_int(u, n)
            exp = u - (1 << n) if u >> (n - 1) else u
            bad = None
            if x != exp:
                bad = f"signed_to_int({u},{n}) = {x}, expected {exp}"
            elif int_to_signed(x, n) != u:
                bad = f"inverse: int_to_signed(signed_to_int({u},{n}),{n}) = {int_to_signed(x, n)}"
            yield [n, "u", u], bad, []


def align(nmax, pmax):
    from transactron.utils.data_repr import align_to_power_of_two, align_down_to_power_of_two
    for power in range(pmax + 1):
        step = 1 << power
        for num in range(nmax + 1):
            up, down = align_to_power_of_two(num, power), align_down_to_power_of_two(num, power)
            eu, ed = -(-num // step) * step, num // step * step
            bad = None
            if up != eu:
                bad = f"align_to_power_of_two({num},{power}) = {up}, expected {eu}"
            elif down != ed:
                bad = f"align_down_to_power_of_two({num},{power}) = {down}, expected {ed}"
            yield [num, power], bad, ["nt_unaligned"] if num % step else []


def _values():
    atoms = [0, 1]
    def conts(items):
        ls = [[]] + [[a] for a in items] + [[a, b] for a in items for b in items]
        ds = [{}] + [{"x": a} for a in items] + [{"y": a} for a in items] + [{"x": a, "y": b} for a in items for b in items]
        return ls, ds
    l1, d1 = conts(atoms)
    level1 = atoms + l1 + d1
    l2, d2 = conts(level1)
    return level1 + l2 + d2 + [{"y": b, "x": a} for a in atoms for b in atoms]


def _shape(v):
    if isinstance(v, dict):
        return ("d",) + tuple(sorted((k, _shape(x)) for k, x in v.items()))
    if isinstance(v, list):
        return ("l",) + tuple(_shape(x) for x in v)
    return "a"


def hashable():
    from transactron.utils.data_repr import make_hashable
    vals = _values()
    hs = []
    for k, v in enumerate(vals):
        try:
            h = make_hashable(v)
            hash(h)
            hs.append(h)
            yield ["single", k], None, []
        except Exception as e:
            hs.append(None)
            yield ["single", k], f"not_hashable: make_hashable({v!r}) -> {type(e).__name__}", []
    shapes = [_shape(v) for v in vals]
    for a in range(len(vals)):
        for b in range(a, len(vals)):
            eq = vals[a] == vals[b]
            heq = hs[a] == hs[b]
            bad = None
            if eq and not heq:
                bad = f"equal_values_differ: {vals[a]!r} == {vals[b]!r} but hashable forms differ"
            elif eq and hash(hs[a]) != hash(hs[b]):
                bad = f"equal_values_hash_differ: {vals[a]!r}"
            elif not eq and heq and shapes[a] == shapes[b]:
                bad = f"distinct_values_collapse: {vals[a]!r} != {vals[b]!r} but hashable forms are equal"
            yield ["pair", a, b], bad, ["nt_equal_pairs"] if eq and a != b else []


def layouts(tier):
    maxbits = 11 if tier == "quick" else 14
    for ko, ki in itertools.product(("struct", "array"), repeat=2):
        for no in (1, 2, 3):
            for ni in (1, 2, 3):
                for wmode in ("one", "mix", "signed"):
                    if wmode == "signed" and not (ko == "array" and ki == "array"):
                        continue
                    L = mk_layout(ko, ki, no, ni, wmode)
                    if L.size <= maxbits:
                        yield {"ko": ko, "ki": ki, "no": no, "ni": ni, "wmode": wmode}


def run(rep, tier):
    rep.rule = ("transpose / transpose_layout(_with_keys) on every two-level layout with 1-3 outer x 1-3 inner keys (struct x "
                "struct, struct x array, array x struct, array x array; leaf widths 1-2, signed leaves) of at most 11 (14) bits: "
                "every bit pattern as data.Const (element swap, involution of layout and value) and every valuation of a View "
                "evaluated by pysim; 11 invalid layouts must raise ValueError; signed_to_int / int_to_signed inverse on every "
                "value for xlen 1-8 (10); align_* for num 0-64 (300) x power 0-5 (8); make_hashable on every pair of ~750 nested "
                "dict/list values of depth <= 2 (equal values -> equal hashables and hashes, distinct values of the same "
                "container shape -> distinct hashables)")
    rep.assumptions = ["pysim semantics for the View form", "bounded sizes as listed"]
    q = tier == "quick"
    lays = list(layouts(tier))
    ejobs = [ENUM("checks.c41", "transpose_const", c) for c in lays]
    ejobs += [ENUM("checks.c41", "transpose_invalid", {}), ENUM("checks.c41", "signed_conv", {"xmax": 8 if q else 10}),
              ENUM("checks.c41", "align", {"nmax": 64 if q else 300, "pmax": 5 if q else 8}), ENUM("checks.c41", "hashable", {})]
    add_enum(rep, run_jobs(ejobs, chunksize=2))
    add_comb(rep, run_jobs([COMB("checks.c41", "transpose_view", c) for c in lays], chunksize=2))
    return {"states": 50, "transitions": 50000, "nt_layouts": 40, "nt_const_patterns": 5000, "nt_asymmetric_pattern": 1000,
            "nt_invalid": 11, "nt_negative": 200, "nt_unaligned": 100, "nt_equal_pairs": 4}
