"""C42 -- DependencyManager keys behave as documented (every add/get history up to a depth, E4)."""
import itertools
from dataclasses import dataclass

from vlib.seq import SEQ, add_seq
from vlib.runner import run_jobs

PROP = "C42"


def _keys():
    from transactron.utils.dependencies import SimpleKey, ListKey, DependencyKey
    from transactron.lib.dependencies import UnifierKey

    @dataclass(frozen=True)
    class Simple(SimpleKey[str]):
        pass

    @dataclass(frozen=True)
    class SimpleDefault(SimpleKey[str]):
        empty_valid = True
        default_value = "dflt"

    @dataclass(frozen=True)
    class SimpleNoLock(SimpleKey[str]):
        lock_on_get = False

    @dataclass(frozen=True)
    class List(ListKey[str]):
        pass

    @dataclass(frozen=True)
    class ListNoLock(ListKey[str]):
        lock_on_get = False

    @dataclass(frozen=True)
    class Joined(DependencyKey[str, str]):
        """custom combining key, cached, not locking: get must always reflect every add so far"""
        lock_on_get = False
        empty_valid = True

        def combine(self, data):
            return "+".join(data)

    @dataclass(frozen=True)
    class JoinedNoCache(DependencyKey[str, str]):
        lock_on_get = False
        cache = False

        def combine(self, data):
            return "+".join(data)

    class FakeUnifier:
        def __init__(self, methods):
            self.method = ("unified",) + tuple(methods)

    @dataclass(frozen=True)
    class Unif(UnifierKey, unifier=FakeUnifier):
        pass

    @dataclass(frozen=True)
    class Param(SimpleKey[str]):
        """two instances of one parametrised key class are different keys"""
        n: int = 0

    return {"Simple": Simple(), "SimpleDefault": SimpleDefault(), "SimpleNoLock": SimpleNoLock(), "List": List(),
            "ListNoLock": ListNoLock(), "Joined": Joined(), "JoinedNoCache": JoinedNoCache(), "Unif": Unif(),
            "Param0": Param(0), "Param1": Param(1)}


# reference description of each key: kind, lock_on_get, empty_valid
REF = {
    "Simple": ("simple", True, False), "SimpleDefault": ("simple", True, True), "SimpleNoLock": ("simple", False, False),
    "List": ("list", True, True), "ListNoLock": ("list", False, True), "Joined": ("join", False, True),
    "JoinedNoCache": ("join", False, False), "Unif": ("unif", True, False), "Param0": ("simple", True, False),
    "Param1": ("simple", True, False),
}


def universe(keys):
    K = _keys()
    names = list(keys)
    ops = []
    for k in names:
        ops += [("get_optional", k), ("get", k), ("add", k, "a"), ("add", k, "b")]

    def make():
        from transactron.utils.dependencies import DependencyManager
        return DependencyManager()

    def norm(val):
        if isinstance(val, list):
            return ("list",) + tuple(val)
        if isinstance(val, tuple) and len(val) == 2 and isinstance(val[1], tuple):     # UnifierKey result
            return ("unif", val[0], len(val[1]))
        return val

    def apply(dm, op):
        try:
            if op[0] == "add":
                dm.add_dependency(K[op[1]], op[2])
                return ("ok", None)
            if op[0] == "get":
                return ("ok", norm(dm.get_dependency(K[op[1]])))
            return ("ok", norm(dm.get_optional_dependency(K[op[1]])))
        except Exception as e:
            return ("raises", type(e).__name__)

    def model():
        return {"deps": {k: [] for k in names}, "locked": set()}

    def model_apply(ref, op):
        k = op[1]
        kind, lock, empty_valid = REF[k]
        if op[0] == "add":
            if k in ref["locked"]:
                return ("raises", None)
            ref["deps"][k].append(op[2])
            return ("ok", None)
        if lock:
            ref["locked"].add(k)
        data = ref["deps"][k]
        if not data and not empty_valid:
            return ("raises", None) if op[0] == "get" else ("ok", None)
        if kind == "simple":
            if not data:
                return ("ok", "dflt")
            if len(data) > 1:
                return ("raises", None)
            return ("ok", data[0])
        if kind == "list":
            return ("ok", ("list",) + tuple(data))
        if kind == "join":
            return ("ok", "+".join(data))
        if len(data) == 1:
            return ("ok", ("unif", data[0], 0))
        return ("ok", ("unif", ("unified",) + tuple(data), 1))

    def compare(got, exp):
        if got[0] != exp[0]:
            return f"outcome: got {got!r}, expected {exp[0]}" + (f" {exp[1]!r}" if exp[0] == "ok" else "")
        if got[0] == "ok" and got[1] != exp[1]:
            return f"value: got {got[1]!r}, expected {exp[1]!r}"
        return None

    def canon(dm):
        # everything the manager holds: dependency lists, cache contents, lock set (keys by name)
        inv = {v: n for n, v in K.items()}
        deps = tuple(sorted((inv[k], tuple(v)) for k, v in dm.dependencies.items() if v))
        cache = tuple(sorted((inv[k], repr(norm(v))) for k, v in dm.cache.items()))
        locked = tuple(sorted(inv[k] for k in dm.locked_dependencies))
        return (deps, cache, locked)

    def model_canon(ref):
        return (tuple(sorted((k, tuple(v)) for k, v in ref["deps"].items() if v)), tuple(sorted(ref["locked"])))

    def count(hist, op, got):
        out = []
        if op[0] == "add" and got[0] == "raises":
            out.append("nt_add_after_locked_get")
        if op[0] != "add" and any(h[0] == "add" and h[1] == op[1] for h in hist) and any(
                h[0] != "add" and h[1] == op[1] for h in hist):
            out.append("nt_get_after_get_and_add")
        if op[0] != "add" and got[0] == "raises":
            out.append("nt_get_raises")
        return out

    return dict(make=make, ops=ops, apply=apply, model=model, model_apply=model_apply, compare=compare, canon=canon,
                model_canon=model_canon, count=count)


def jobs(tier):
    names = list(REF)
    d1, d2 = (6, 4) if tier == "quick" else (8, 5)
    js = [SEQ("checks.c42", "universe", {"keys": [k]}, d1) for k in names]
    pairs = list(itertools.combinations(names, 2))
    if tier == "quick":
        pairs = [p for p in pairs if p in (("Simple", "List"), ("Simple", "SimpleNoLock"), ("List", "ListNoLock"),
                                           ("Joined", "JoinedNoCache"), ("Param0", "Param1"), ("Simple", "Param0"),
                                           ("SimpleDefault", "Unif"), ("List", "Joined"))]
    js += [SEQ("checks.c42", "universe", {"keys": list(p)}, d2) for p in pairs]
    return js


def run(rep, tier):
    rep.rule = ("BFS over all add/get/get_optional histories on a fresh real DependencyManager (replayed from scratch for every "
                "history) for ten keys (simple, simple with default, non-locking, list, custom combining cached / uncached, "
                "UnifierKey with a stub unifier, two instances of a parametrised key): alone to depth 6 (8) and in pairs to "
                "depth 4 (5), values a/b; every result compared with a dict-of-lists + lock-set model; states de-duplicated on "
                "the manager's full contents (dependency lists, cache, lock set)")
    rep.assumptions = ["keys are frozen dataclasses as the documentation requires", "two distinct dependency values",
                       "only ok/raises is compared for failing operations (exception types are recorded, not demanded)"]
    add_seq(rep, run_jobs(jobs(tier)))
    return {"states": 300, "transitions": 5000, "replayed": 5000, "nt_add_after_locked_get": 200,
            "nt_get_after_get_and_add": 500, "nt_get_raises": 200}
