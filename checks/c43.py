"""C43 -- testbench helpers call methods exactly once (E3: every readiness history x start cycle x helper x mock delay x
process order, each run in a real PysimSimulator with the real TestbenchIO / MethodMock processes)."""
import itertools

from vlib.enumr import ENUM, add_enum
from vlib.runner import run_jobs

PROP = "C43"
XW, YW = 2, 3


def make_dut():
    from amaranth import Elaboratable, Module
    from transactron import TModule, Method, def_method
    from transactron.lib.adapters import Adapter, AdapterTrans
    from transactron.testing.testbenchio import TestbenchIO

    class Dut(Elaboratable):
        def __init__(self):
            self.target = Method(i=[("x", XW)], o=[("y", YW)])
            self.wrapper = Method(i=[("x", XW)], o=[("y", YW)])

        def elaborate(self, platform):
            m = TModule()

            @def_method(m, self.wrapper)
            def _(x):
                return {"y": self.target(m, x=x).y}

            return m

    class Top(Elaboratable):
        def __init__(self):
            self.dut = Dut()
            self.caller = TestbenchIO(AdapterTrans.create(self.dut.wrapper))
            self.mocked = TestbenchIO(Adapter.create(self.dut.target))

        def elaborate(self, platform):
            m = Module()
            m.submodules.dut = self.dut
            m.submodules.caller = self.caller
            m.submodules.mocked = self.mocked
            return m

    return Top()


def run_history(pattern, start, mode, args, delay, mock_first):
    """One simulation.  Returns what the helpers reported and what a monitor saw on the wires."""
    from transactron.testing.simulator import PysimSimulator
    from transactron.testing.method_mock import MethodMock
    from transactron.utils.dependencies import DependencyContext, DependencyManager

    with DependencyContext(DependencyManager()):
        top = make_dut()
        st = {"enable_calls": 0, "count": 0, "effects": 0}
        L = len(pattern)

        def enable():
            k = st["enable_calls"]
            st["enable_calls"] += 1
            return bool(pattern[k]) if k < L else True

        def mock_fn(x):
            seen = st["count"]

            @MethodMock.effect
            def eff():
                st["count"] += 1
                st["effects"] += 1

            return {"y": (x + seen) % (1 << YW)}

        mock = MethodMock(top.mocked.adapter, mock_fn, enable=enable, delay=delay)
        results = []
        wire = []
        done_flag = {"tb": False}

        async def tb(sim):
            for _ in range(start):
                await sim.tick()
            for x in args:
                if mode == "call":
                    r = await top.caller.call(sim, x=x)
                    results.append(r.y)
                else:
                    r = await top.caller.call_try(sim, x=x)
                    results.append(None if r is None else r.y)
            for _ in range(2):
                await sim.tick()
            done_flag["tb"] = True

        async def monitor(sim):
            async for _, _, wdone, wy, tdone, tx, ty in sim.tick().sample(
                    top.caller.adapter.done, top.caller.adapter.data_out.y, top.mocked.adapter.done,
                    top.mocked.adapter.data_out.x, top.mocked.adapter.data_in.y):
                wire.append((int(wdone), int(wy), int(tdone), int(tx), int(ty)))

        sim = PysimSimulator(top, max_cycles=200)
        if mock_first:
            sim.add_mock(mock)
        sim.add_testbench(monitor, background=True)
        sim.add_testbench(tb)
        if not mock_first:
            sim.add_mock(mock)
        sim.run()
    return {"results": results, "wire": wire, "effects": st["effects"], "finished": done_flag["tb"]}


def reference(pattern, start, mode, args):
    """From the history alone: which cycles execute the method, and what each helper call returns."""
    L = len(pattern)
    rdy = lambda c: bool(pattern[c]) if c < L else True  # noqa: E731
    runs = []            # (cycle, x, y)
    results = []
    c = start
    n = 0
    for x in args:
        if mode == "call":
            while not rdy(c):
                c += 1
            y = (x + n) % (1 << YW)
            runs.append((c, x, y))
            results.append(y)
            n += 1
            c += 1
        else:
            if rdy(c):
                y = (x + n) % (1 << YW)
                runs.append((c, x, y))
                results.append(y)
                n += 1
            else:
                results.append(None)
            c += 1
    return runs, results


def histories(L, tier, start_lo, start_hi, modes=("call", "call_try"), first=(0, 1)):
    argsets = [(1, 2)] if tier == "quick" else [(1, 2), (3, 3, 0)]
    for start in range(start_lo, start_hi):
        for pattern in itertools.product((0, 1), repeat=L):
            if pattern[0] not in first:
                continue
            for mode in modes:
                for args in argsets:
                    a = args if mode == "call" else args + (2,)
                    for delay in (0, 1e-9):
                        for mock_first in (True, False):
                            yield {"pattern": list(pattern), "start": start, "mode": mode, "args": list(a), "delay": delay,
                                   "mock_first": mock_first}


def cases(L, tier, start_lo, start_hi, modes=("call", "call_try"), first=(0, 1)):
    for h in histories(L, tier, start_lo, start_hi, tuple(modes), tuple(first)):
        tags = []
        try:
            got = run_history(**h)
        except Exception as e:
            yield h, f"simulation: {type(e).__name__}: {str(e)[:200]}", tags
            continue
        runs, results = reference(h["pattern"], h["start"], h["mode"], h["args"])
        bad = None
        wire_runs = [(c, w[3], w[4]) for c, w in enumerate(got["wire"]) if w[2]]
        caller_runs = [(c, w[1]) for c, w in enumerate(got["wire"]) if w[0]]
        if not got["finished"]:
            bad = "hang: the testbench did not finish"
        elif got["results"] != results:
            bad = f"result: helpers returned {got['results']}, expected {results}"
        elif [c for c, _, _ in wire_runs] != [c for c, _, _ in runs]:
            bad = (f"exactly_once: the mocked method executed in cycles {[c for c, _, _ in wire_runs]}, the calls made "
                   f"account for cycles {[c for c, _, _ in runs]}")
        elif [(x, y) for _, x, y in wire_runs] != [(x, y) for _, x, y in runs]:
            bad = f"mock.data: per executed call (argument, returned) on the wires {wire_runs}, expected {runs}"
        elif [c for c, _ in caller_runs] != [c for c, _, _ in runs] or [y for _, y in caller_runs] != [y for _, _, y in runs]:
            bad = f"same_cycle: the caller's adapter saw (cycle, value) {caller_runs}, the mock returned {runs}"
        elif got["effects"] != len(runs):
            bad = f"effects: {got['effects']} effect executions for {len(runs)} executed calls"
        if h["mode"] == "call_try" and None in results:
            tags.append("nt_call_try_none")
        if h["mode"] == "call" and runs and runs[0][0] > h["start"]:
            tags.append("nt_call_waited")
        if len(runs) >= 2 and runs[1][0] == runs[0][0] + 1:
            tags.append("nt_back_to_back")
        yield h, bad, tags


def run(rep, tier):
    L = 4 if tier == "quick" else 6
    rep.rule = ("every history (readiness pattern of the mocked method of length 4 (6) x start cycle x call / call_try x argument "
                "sequence x mock delay 0 / 1e-9 x mock added before / after the testbench) is run in a real PysimSimulator with "
                "the real TestbenchIO and MethodMock processes around a wrapper method calling the mocked method; a monitor "
                "samples the adapters' wires every cycle; compared with a reference computed from the history alone: values "
                "returned by the helpers (None iff the method did not run), the cycles in which the method executed (exactly one "
                "per successful call, none afterwards), mock return value = f(argument, number of effects so far) seen by the "
                "caller in the same cycle, number of effect executions")
    rep.assumptions = ["Amaranth's simulator schedules testbenches/processes as documented (insertion order is part of the history)",
                       "2-3 calls per history"]
    starts = range(0, 3 if tier == "quick" else 4)
    js = [ENUM("checks.c43", "cases", {"L": L, "tier": tier, "start_lo": s, "start_hi": s + 1, "modes": [md], "first": [f]})
          for s in starts for md in ("call", "call_try") for f in (0, 1)]
    add_enum(rep, run_jobs(js))
    return {"transitions": 300, "nt_call_try_none": 50, "nt_call_waited": 50, "nt_back_to_back": 50}
