"""C43 -- testbench helpers call methods exactly once (E3: every readiness history x start cycle x helper x mock delay x
process order, each run in a real PysimSimulator with the real TestbenchIO / MethodMock processes)."""
import itertools

from vlib.enumr import ENUM, add_enum
from vlib.runner import run_jobs

PROP = "C43"
XW, YW = 2, 3


def make_dut():
    from amaranth import Elaboratable, Module
    from transactron import TModule, Method, def_method
    from transactron.lib.adapters import Adapter, AdapterTrans
    from transactron.testing.testbenchio import TestbenchIO

    class Dut(Elaboratable):
        def __init__(self):
            self.target = Method(i=[("x", XW)], o=[("y", YW)])
            self.wrapper = Method(i=[("x", XW)], o=[("y", YW)])

        def elaborate(self, platform):
            m = TModule()

            @def_method(m, self.wrapper)
            def _(x):
                return {"y": self.target(m, x=x).y}

            return m

    class Top(Elaboratable):
        def __init__(self):
            self.dut = Dut()
            self.caller = TestbenchIO(AdapterTrans.create(self.dut.wrapper))
            self.mocked = TestbenchIO(Adapter.create(self.dut.target))

        def elaborate(self, platform):
            m = Module()
            m.submodules.dut = self.dut
            m.submodules.caller = self.caller
            m.submodules.mocked = self.mocked
            return m

    return Top()


def run_history(pattern, start, mode, args, delay, mock_first):
    """One simulation.  Returns what the helpers reported and what a monitor saw on the wires."""
    from transactron.testing.simulator import PysimSimulator
    from transactron.testing.method_mock import MethodMock
    from transactron.utils.dependencies import DependencyContext, DependencyManager

    with DependencyContext(DependencyManager()):
        top = make_dut()
        st = {"enable_calls": 0, "count": 0, "effects": 0}
        L = len(pattern)

        def enable():
            k = st["enable_calls"]
            st["enable_calls"] += 1
            return bool(pattern[k]) if k < L else True

        def mock_fn(x):
            seen = st["count"]

            @MethodMock.effect
            def eff():
                st["count"] += 1
                st["effects"] += 1

            return {"y": (x + seen) % (1 << YW)}

        mock = MethodMock(top.mocked.adapter, mock_fn, enable=enable, delay=delay)
        results = []
        wire = []
        done_flag = {"tb": False}

        async def tb(sim):
            for _ in range(start):
                await sim.tick()
            for x in args:
                if mode == "call":
                    r = await top.caller.call(sim, x=x)
                    results.append(r.y)
                else:
                    r = await top.caller.call_try(sim, x=x)
                    results.append(None if r is None else r.y)
            for _ in range(2):
                await sim.tick()
            done_flag["tb"] = True

        async def monitor(sim):
            async for _, _, wdone, wy, tdone, tx, ty in sim.tick().sample(
                    top.caller.adapter.done, top.caller.adapter.data_out.y, top.mocked.adapter.done,
                    top.mocked.adapter.data_out.x, top.mocked.adapter.data_in.y):
                wire.append((int(wdone), int(wy), int(tdone), int(tx), int(ty)))

        sim = PysimSimulator(top, max_cycles=200)
        if mock_first:
            sim.add_mock(mock)
        sim.add_testbench(monitor, background=True)
        sim.add_testbench(tb)
        if not mock_first:
            sim.add_mock(mock)
        sim.run()
    return {"results": results, "wire": wire, "effects": st["effects"], "finished": done_flag["tb"]}


def reference(pattern, start, mode, args):
    """From the history alone: which cycles execute the method, and what each helper call returns."""
    L = len(pattern)
    rdy = lambda c: bool(pattern[c]) if c < L else True  # noqa: E731
    runs = []            # (cycle, x, y)
    results = []
    c = start
    n = 0
    for x in args:
        if mode == "call":
            while not rdy(c):
                c += 1
            y = (x + n) % (1 << YW)
            runs.append((c, x, y))
            results.append(y)
            n += 1
            c += 1
        else:
            if rdy(c):
                y = (x + n) % (1 << YW)
                runs.append((c, x, y))
                results.append(y)
                n += 1
            else:
                results.append(None)
            c += 1
    return runs, results


def histories(L, tier, start_lo, start_hi, modes=("call", "call_try"), first=(0, 1)):
    argsets = [(1, 2)] if tier == "quick" else [(1, 2), (3, 3, 0)]
    for start in range(start_lo, start_hi):
        for pattern in itertools.product((0, 1), repeat=L):
            if pattern[0] not in first:
                continue
            for mode in modes:
                for args in argsets:
                    a = args if mode == "call" else args + (2,)
                    for delay in (0, 1e-9):
                        for mock_first in (True, False):
                            yield {"pattern": list(pattern), "start": start, "mode": mode, "args": list(a), "delay": delay,
                                   "mock_first": mock_first}


def cases(L, tier, start_lo, start_hi, modes=("call", "call_try"), first=(0, 1)):
    for h in histories(L, tier, start_lo, start_hi, tuple(modes), tuple(first)):
        tags = []
        try:
            got = run_history(**h)
        except Exception as e:
            yield h, f"simulation: {type(e).__name__}: {str(e)[:200]}", tags
            continue
        runs, results = reference(h["pattern"], h["start"], h["mode"], h["args"])
        bad = None
        wire_runs = [(c, w[3], w[4]) for c, w in enumerate(got["wire"]) if w[2]]
        caller_runs = [(c, w[1]) for c, w in enumerate(got["wire"]) if w[0]]
        if not got["finished"]:
            bad = "hang: the testbench did not finish"
        elif got["results"] != results:
            bad = f"result: helpers returned {got['results']}, expected {results}"
        elif [c for c, _, _ in wire_runs] != [c for c, _, _ in runs]:
            bad = (f"exactly_once: the mocked method executed in cycles {[c for c, _, _ in wire_runs]}, the calls made "
                   f"account for cycles {[c for c, _, _ in runs]}")
        elif [(x, y) for _, x, y in wire_runs] != [(x, y) for _, x, y in runs]:
            bad = f"mock.data: per executed call (argument, returned) on the wires {wire_runs}, expected {runs}"
        elif [c for c, _ in caller_runs] != [c for c, _, _ in runs] or [y for _, y in caller_runs] != [y for _, _, y in runs]:
            bad = f"same_cycle: the caller's adapter saw (cycle, value) {caller_runs}, the mock returned {runs}"
        elif got["effects"] != len(runs):
            bad = f"effects: {got['effects']} effect executions for {len(runs)} executed calls"
        if h["mode"] == "call_try" and None in results:
            tags.append("nt_call_try_none")
        if h["mode"] == "call" and runs and runs[0][0] > h["start"]:
            tags.append("nt_call_waited")
        if len(runs) >= 2 and runs[1][0] == runs[0][0] + 1:
            tags.append("nt_back_to_back")
        yield h, bad, tags


# ---------------------------------------------------------------------------------------------------------------
# (b) a mock whose arguments come from DUT registers that change on the very edge the call executes


def make_auto():
    from amaranth import Elaboratable, Module, Signal
    from transactron import TModule, Method, Transaction
    from transactron.lib.adapters import Adapter
    from transactron.testing.testbenchio import TestbenchIO

    class Dut(Elaboratable):
        def __init__(self):
            self.sink = Method(i=[("x", XW)], o=[("y", YW)])
            self.cnt = Signal(XW)
            self.acc = Signal(YW)

        def elaborate(self, platform):
            m = TModule()
            with Transaction().body(m):
                r = self.sink(m, x=self.cnt)
                m.d.sync += self.cnt.eq(self.cnt + 1)
                m.d.sync += self.acc.eq(r.y)
            return m

    class Top(Elaboratable):
        def __init__(self):
            self.dut = Dut()
            self.mocked = TestbenchIO(Adapter.create(self.dut.sink))

        def elaborate(self, platform):
            m = Module()
            m.submodules.dut = self.dut
            m.submodules.mocked = self.mocked
            return m

    return Top()


def run_auto(pattern, delay, mock_first):
    from transactron.testing.simulator import PysimSimulator
    from transactron.testing.method_mock import MethodMock
    from transactron.utils.dependencies import DependencyContext, DependencyManager

    with DependencyContext(DependencyManager()):
        top = make_auto()
        st = {"enable_calls": 0, "log": []}
        L = len(pattern)

        def enable():
            k = st["enable_calls"]
            st["enable_calls"] += 1
            return bool(pattern[k]) if k < L else False

        def mock_fn(x):
            n = len(st["log"])

            @MethodMock.effect
            def eff():
                st["log"].append(int(x))

            return {"y": (x + n) % (1 << YW)}

        mock = MethodMock(top.mocked.adapter, mock_fn, enable=enable, delay=delay)
        wire = []
        fin = {"tb": False}

        async def tb(sim):
            for _ in range(L + 2):
                await sim.tick()
            fin["tb"] = True

        async def monitor(sim):
            async for _, _, tdone, tx, ty, acc in sim.tick().sample(
                    top.mocked.adapter.done, top.mocked.adapter.data_out.x, top.mocked.adapter.data_in.y, top.dut.acc):
                wire.append((int(tdone), int(tx), int(ty), int(acc)))

        sim = PysimSimulator(top, max_cycles=200)
        if mock_first:
            sim.add_mock(mock)
        sim.add_testbench(monitor, background=True)
        sim.add_testbench(tb)
        if not mock_first:
            sim.add_mock(mock)
        sim.run()
    return {"wire": wire, "log": st["log"], "finished": fin["tb"]}


def cases_auto(L, first):
    for pattern in itertools.product((0, 1), repeat=L):
        if pattern[0] != first:
            continue
        for delay in (0, 1e-9):
            for mock_first in (True, False):
                h = {"pattern": list(pattern), "delay": delay, "mock_first": mock_first, "design": "auto"}
                tags = []
                try:
                    got = run_auto(list(pattern), delay, mock_first)
                except Exception as e:
                    yield h, f"simulation: {type(e).__name__}: {str(e)[:200]}", tags
                    continue
                exp_cycles = [c for c in range(L) if pattern[c]]
                exp = [(c, k % (1 << XW), (k % (1 << XW) + k) % (1 << YW)) for k, c in enumerate(exp_cycles)]
                wire_runs = [(c, w[1], w[2]) for c, w in enumerate(got["wire"]) if w[0]]
                bad = None
                if not got["finished"]:
                    bad = "hang: the testbench did not finish"
                elif [c for c, _, _ in wire_runs] != exp_cycles:
                    bad = f"exactly_once: the mocked method executed in cycles {[c for c, _, _ in wire_runs]}, enabled in {exp_cycles}"
                elif wire_runs != exp:
                    bad = f"mock.data: per executed call (cycle, argument, returned) on the wires {wire_runs}, expected {exp}"
                elif got["log"] != [x for _, x, _ in exp]:
                    bad = (f"effects: the effects applied carry arguments {got['log']}, the executed calls had arguments "
                           f"{[x for _, x, _ in exp]}")
                else:
                    # the value returned in cycle c is registered by the caller at the end of that cycle
                    for c, _, y in exp:
                        if c + 1 < len(got["wire"]) and got["wire"][c + 1][3] != y:
                            bad = f"same_cycle: the caller registered {got['wire'][c + 1][3]} for the call of cycle {c}, mock returned {y}"
                            break
                if any(b == a + 1 for a, b in zip(exp_cycles, exp_cycles[1:])):
                    tags.append("nt_back_to_back")
                if len(exp_cycles) >= 2:
                    tags.append("nt_auto_two_calls")
                yield h, bad, tags


# ---------------------------------------------------------------------------------------------------------------
# (c) CallTrigger with two calls: plain await, until_done, until_all_done


def make_pair():
    from amaranth import Elaboratable, Module
    from transactron import TModule, Method, def_method
    from transactron.lib.adapters import Adapter, AdapterTrans
    from transactron.testing.testbenchio import TestbenchIO

    class Dut(Elaboratable):
        def __init__(self):
            self.t = [Method(i=[("x", XW)], o=[("y", YW)]) for _ in range(2)]
            self.w = [Method(i=[("x", XW)], o=[("y", YW)]) for _ in range(2)]

        def elaborate(self, platform):
            m = TModule()
            def define(k):
                @def_method(m, self.w[k])
                def _(x):
                    return {"y": self.t[k](m, x=x).y}

            for k in range(2):
                define(k)
            return m

    class Top(Elaboratable):
        def __init__(self):
            self.dut = Dut()
            self.callers = [TestbenchIO(AdapterTrans.create(self.dut.w[k])) for k in range(2)]
            self.mocked = [TestbenchIO(Adapter.create(self.dut.t[k])) for k in range(2)]

        def elaborate(self, platform):
            m = Module()
            m.submodules.dut = self.dut
            for k in range(2):
                m.submodules[f"caller{k}"] = self.callers[k]
                m.submodules[f"mocked{k}"] = self.mocked[k]
            return m

    return Top()


def run_pair(pa, pb, start, mode, delay, mock_first):
    from transactron.testing.simulator import PysimSimulator
    from transactron.testing.method_mock import MethodMock
    from transactron.testing.testbenchio import CallTrigger
    from transactron.utils.dependencies import DependencyContext, DependencyManager

    with DependencyContext(DependencyManager()):
        top = make_pair()
        pats = [pa, pb]
        st = [{"enable_calls": 0, "count": 0} for _ in range(2)]
        mocks = []
        def make_mock(k):
            def enable():
                n = st[k]["enable_calls"]
                st[k]["enable_calls"] += 1
                return bool(pats[k][n]) if n < len(pats[k]) else True

            def mock_fn(x):
                seen = st[k]["count"]

                @MethodMock.effect
                def eff():
                    st[k]["count"] += 1

                return {"y": (x + seen + 3 * k) % (1 << YW)}

            return MethodMock(top.mocked[k].adapter, mock_fn, enable=enable, delay=delay)

        for k in range(2):
            mocks.append(make_mock(k))
        out = {"res": None, "finished": False}
        wire = []

        async def tb(sim):
            for _ in range(start):
                await sim.tick()
            trig = CallTrigger(sim).call(top.callers[0], x=1).call(top.callers[1], {"x": 2})
            if mode == "once":
                res = await trig
            elif mode == "until_done":
                res = await trig.until_done()
            else:
                res = await trig.until_all_done()
            out["res"] = [None if r is None else int(r.y) for r in res]
            for _ in range(2):
                await sim.tick()
            out["finished"] = True

        async def monitor(sim):
            sigs = []
            for k in range(2):
                sigs += [top.callers[k].adapter.done, top.callers[k].adapter.data_out.y, top.mocked[k].adapter.done,
                         top.mocked[k].adapter.data_out.x, top.mocked[k].adapter.data_in.y]
            async for _, _, *vals in sim.tick().sample(*sigs):
                wire.append(tuple(int(v) for v in vals))

        sim = PysimSimulator(top, max_cycles=200)
        if mock_first:
            for mk in mocks:
                sim.add_mock(mk)
        sim.add_testbench(monitor, background=True)
        sim.add_testbench(tb)
        if not mock_first:
            for mk in mocks:
                sim.add_mock(mk)
        sim.run()
    return {"res": out["res"], "finished": out["finished"], "wire": wire, "effects": [s["count"] for s in st]}


def reference_pair(pa, pb, start, mode):
    pats = [pa, pb]
    rdy = lambda k, c: bool(pats[k][c]) if c < len(pats[k]) else True  # noqa: E731
    xs = [1, 2]
    n = [0, 0]
    runs = [[], []]
    c = start
    while True:
        res = []
        for k in range(2):
            if rdy(k, c):
                y = (xs[k] + n[k] + 3 * k) % (1 << YW)
                runs[k].append((c, xs[k], y))
                n[k] += 1
                res.append(y)
            else:
                res.append(None)
        c += 1
        if mode == "once" or (mode == "until_done" and any(r is not None for r in res)) or \
                (mode == "until_all_done" and all(r is not None for r in res)):
            return runs, res


def cases_pair(L, start, mode, first):
    for pa in itertools.product((0, 1), repeat=L):
        if pa[0] != first:
            continue
        for pb in itertools.product((0, 1), repeat=L):
            for delay in (0, 1e-9):
                for mock_first in (True, False):
                    h = {"pa": list(pa), "pb": list(pb), "start": start, "mode": mode, "delay": delay, "mock_first": mock_first,
                         "design": "pair"}
                    tags = []
                    try:
                        got = run_pair(**{k: v for k, v in h.items() if k != "design"})
                    except Exception as e:
                        yield h, f"simulation: {type(e).__name__}: {str(e)[:200]}", tags
                        continue
                    runs, res = reference_pair(list(pa), list(pb), start, mode)
                    bad = None
                    if not got["finished"]:
                        bad = "hang: the testbench did not finish"
                    elif got["res"] != res:
                        bad = f"result: the trigger returned {got['res']}, expected {res}"
                    else:
                        for k in range(2):
                            w = [(c, v[5 * k + 3], v[5 * k + 4]) for c, v in enumerate(got["wire"]) if v[5 * k + 2]]
                            cw = [(c, v[5 * k + 1]) for c, v in enumerate(got["wire"]) if v[5 * k]]
                            if [c for c, _, _ in w] != [c for c, _, _ in runs[k]]:
                                bad = (f"exactly_once: method {k} executed in cycles {[c for c, _, _ in w]}, the trigger's "
                                       f"attempts account for cycles {[c for c, _, _ in runs[k]]}")
                            elif w != runs[k]:
                                bad = f"mock.data: method {k} (cycle, argument, returned) on the wires {w}, expected {runs[k]}"
                            elif cw != [(c, y) for c, _, y in runs[k]]:
                                bad = f"same_cycle: caller {k} saw (cycle, value) {cw}, the mock returned {runs[k]}"
                            elif got["effects"][k] != len(runs[k]):
                                bad = f"effects: {got['effects'][k]} effect executions of mock {k} for {len(runs[k])} executed calls"
                            if bad:
                                break
                    if sum(r is not None for r in res) == 1:
                        tags.append("nt_trigger_partial")
                    if mode != "once" and runs[0] and runs[1] and runs[0][0][0] != runs[1][0][0]:
                        tags.append("nt_trigger_ready_in_different_cycles")
                    if mode == "until_done" and (runs[0] or runs[1]) and min(r[0][0] for r in runs if r) > start:
                        tags.append("nt_trigger_waited")
                    yield h, bad, tags


def run(rep, tier):
    L = 4 if tier == "quick" else 6
    rep.rule = ("every history (readiness pattern of the mocked method of length 4 (6) x start cycle x call / call_try x argument "
                "sequence x mock delay 0 / 1e-9 x mock added before / after the testbench) is run in a real PysimSimulator with "
                "the real TestbenchIO and MethodMock processes around a wrapper method calling the mocked method; a monitor "
                "samples the adapters' wires every cycle; compared with a reference computed from the history alone: values "
                "returned by the helpers (None iff the method did not run), the cycles in which the method executed (exactly one "
                "per successful call, none afterwards), mock return value = f(argument, number of effects so far) seen by the "
                "caller in the same cycle, number of effect executions.  (b) a DUT transaction calling the mocked method with a "
                "register argument that changes on the edge of each executed call: every enable pattern; the effects applied must "
                "carry the arguments of the executed calls.  (c) a CallTrigger with two calls (plain await / until_done / "
                "until_all_done): every pair of readiness patterns x start cycle; results, executions per cycle, effects")
    rep.assumptions = ["Amaranth's simulator schedules testbenches/processes as documented (insertion order is part of the history)",
                       "2-3 calls per history"]
    starts = range(0, 3 if tier == "quick" else 4)
    js = [ENUM("checks.c43", "cases", {"L": L, "tier": tier, "start_lo": s, "start_hi": s + 1, "modes": [md], "first": [f]})
          for s in starts for md in ("call", "call_try") for f in (0, 1)]
    La = 5 if tier == "quick" else 7
    js += [ENUM("checks.c43", "cases_auto", {"L": La, "first": f}) for f in (0, 1)]
    Lp = 3 if tier == "quick" else 4
    js += [ENUM("checks.c43", "cases_pair", {"L": Lp, "start": s, "mode": md, "first": f})
           for s in ((0, 1) if tier == "quick" else (0, 1, 2)) for md in ("once", "until_done", "until_all_done") for f in (0, 1)]
    add_enum(rep, run_jobs(js))
    return {"transitions": 300, "nt_call_try_none": 50, "nt_call_waited": 50, "nt_back_to_back": 50, "nt_auto_two_calls": 20,
            "nt_trigger_partial": 50, "nt_trigger_waited": 20}
