"""Shared definitions of the core checks C01-C08, C10, C11 (engine E2, vlib/dsl.py + vlib/e2.py)."""
from vlib.e2 import run_family_check

FAMS_Q = {
    "flat_s": ("flat", {"small": True}),
    "flat": ("flat", {}),
    "flat_args_s": ("flat", {"small": True, "args": True}),
    "flat3_s": ("flat", {"small": True, "third": True}),
    "chain_s": ("chain", {"small": True}),
    "chain": ("chain", {}),
    "ctrl": ("ctrl", {}),
    "rel2": ("rel", {"n": 2}),
    "rel3": ("rel", {"n": 3}),
    "rel4": ("rel", {"n": 4, "on": "t", "extra": False}),
    "nest": ("nest", {}),
    "val": ("val", {}),
    "prov": ("prov", {}),
    "provrel": ("provrel", {}),
    "consten": ("consten", {}),
    "xrel": ("xrel", {}),
    "chain_m": ("chain", {"medium": True}),
    "bad": ("bad", {}),
    "xmod": ("xmod", {}),
    "plural": ("plural", {}),
    "widecond": ("widecond", {}),
    "xmod_l": ("xmod", {"small": False}),
}

ASSUME = ["amaranth pysim is the semantics of the elaborated circuit",
          "designs are those of the bounded grammar families named in coverage.families (DESIGN.md sec. 4)",
          "the reference interpreter vlib/dsl.py encodes the property statements (readings: DESIGN.md sec. 6)"]


def run_core(rep, prop, quick, thorough, tier, rule, scheds=("eager",), simulate=True, floors=None, props=None):
    rep.rule = rule
    rep.assumptions = ASSUME
    names = quick if tier == "quick" else thorough
    run_family_check(rep, prop, [FAMS_Q[n] for n in names], sched_list=scheds, simulate=simulate, props=props)
    return floors or {}
