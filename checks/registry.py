"""Per-property MANIFEST texts. A property appears here only when its check exists and passes."""

E1_NOTE = ("Trusts Amaranth's pysim as the semantics of the elaborated circuit and the reference model written from the "
           "property statement; configurations, data widths and (where stated in the evidence) depth are bounded.")

ENGINES = [
    {"name": "tsx", "path": "/verif/vlib/tsx.py", "kind_free_text":
     "explicit-state BFS over (register+memory state, reference-model state) of the elaborated design, every input "
     "valuation in every reachable state, hand-driven pysim with snapshot/restore, public-API replay of BFS-tree leaves",
     "serves_properties": []},
]

REGISTRY = {}
NOT_APPLICABLE = {}


def reg(pid, engine, text, technique, note=E1_NOTE, ref="DESIGN.md sec. 4"):
    REGISTRY[pid] = {"engine": engine, "text": text, "technique": technique, "note": note, "ref": ref}
    for e in ENGINES:
        if e["name"] == engine and pid not in e["serves_properties"]:
            e["serves_properties"].append(pid)


reg("C14", "tsx",
    "Complete reachability analysis of BasicFifo/FIFO (depth 1-4 quick, up to 7 thorough; 1-2 bit data) in lock-step with a "
    "deque model: every history of read/peek/write/clear calls of every length is covered for these configurations, "
    "readiness and data checked on every transition.",
    "explicit-state BFS of the real elaborated circuit against a deque reference model")

reg("C15", "tsx",
    "Complete reachability analysis of WideFifo for a grid of (depth, read_width, write_width, write_max_count) in lock-step "
    "with a deque model: every history of read(count)/peek/write(count,data[,max_count])/clear of every length for these "
    "configurations; returned counts/elements, readiness and the fits-check are compared on every transition.",
    "explicit-state BFS of the real elaborated circuit against a deque reference model")
reg("C16", "tsx",
    "Complete reachability analysis of Stack (depth 1-5 quick, 1-8 thorough, power of two or not) against a list model; "
    "every valuation of read/peek/write/clear in every reachable state.",
    "explicit-state BFS of the real elaborated circuit against a list reference model")
reg("C17", "tsx",
    "Complete reachability analysis of Forwarder and Pipe (1-3 bit payload, full input alphabet) against an optional-slot "
    "model with the readiness clauses of the statement; all histories of all lengths.",
    "explicit-state BFS of the real elaborated circuit against a one-slot reference model")
reg("C20", "tsx",
    "Complete reachability analysis of Semaphore for max_count up to 5 (16 thorough) against an integer model, internal "
    "count compared in every state.",
    "explicit-state BFS of the real elaborated circuit against an integer reference model")
reg("C24", "tsx",
    "Complete reachability analysis of ContentAddressableMemory (1-3 entries, 1-2 bit keys and data) against a dict model "
    "with all four methods free to run in the same cycle on pre-state semantics.",
    "explicit-state BFS of the real elaborated circuit against a dict reference model")
reg("C25", "tsx",
    "Complete reachability analysis of PriorityEncoderAllocator over (entries, alloc_ways, free_ways, init) against a "
    "free-mask model; returned identifiers are checked free and pairwise distinct on every transition.",
    "explicit-state BFS of the real elaborated circuit against a free-mask reference model")
reg("C26", "tsx",
    "Complete reachability analysis of PreservedOrderAllocator (1-4 entries, 5 thorough) against an ordered-list model; "
    "order() is read and checked (permutation, prefix = allocation order) in every cycle.",
    "explicit-state BFS of the real elaborated circuit against an ordered-list reference model")
reg("C27", "tsx",
    "Complete reachability analysis of CircularAllocator over (entries, max_alloc, max_free, validation on/off) against a "
    "ring model; returned identifiers, new indices, the allocated count and acceptance of overflowing calls are checked on "
    "every transition.",
    "explicit-state BFS of the real elaborated circuit against a ring reference model")

reg("C19", "tsx",
    "Complete reachability analysis of Serializer (1-3 clients, queue depth 1-3; the server is two real Adapters driven by the "
    "explorer under the in-order-server assumption) against a queue of client ids, and of ArgumentsToResultsZipper against two "
    "queues; every request/response interleaving of every length for these configurations.",
    "explicit-state BFS of the real elaborated circuit against a queue reference model")
reg("C21", "tsx",
    "Complete reachability analysis of MemoryBank for all four (transparent, read_on_resp) combinations with 1-2 read/write "
    "ports, with and without write granularity (thorough: depth up to 4, (2,2) ports, every multiport memory_type, the larger "
    "ones capped and reported) against an ideal array plus per-port pending-response queues.",
    "explicit-state BFS of the real elaborated circuit against an ideal-memory reference model")
reg("C22", "tsx",
    "Complete reachability analysis of AsyncMemoryBank (depth 2-4, width 1-4, up to 3x3 ports, granularity) against an ideal "
    "array with start-of-cycle read semantics.",
    "explicit-state BFS of the real elaborated circuit against an ideal-memory reference model")
reg("C23", "tsx",
    "Miter of each multiport memory against a real amaranth.lib.memory.Memory with identical init/ports/transparency/granularity, "
    "BFS over the joint state with every port valuation: MultiReadMemory completely, XOR/ILVT memories for all port histories up "
    "to the depth reported per configuration (3 quick, 4-6 thorough). One open known finding (ILVT + write granularity).",
    "explicit-state BFS of a miter circuit (implementation vs. Amaranth's own memory), depth-bounded for the XOR/ILVT memories",
    note=E1_NOTE + " amaranth.lib.memory.Memory is trusted as the ideal memory; XOR/ILVT configurations are depth-bounded, not complete.")
