"""Per-property MANIFEST texts. A property appears here only when its check exists and passes."""

E1_NOTE = ("Trusts Amaranth's pysim as the semantics of the elaborated circuit and the reference model written from the "
           "property statement; configurations, data widths and (where stated in the evidence) depth are bounded.")

ENGINES = [
    {"name": "tsx", "path": "/verif/vlib/tsx.py", "kind_free_text":
     "explicit-state BFS over (register+memory state, reference-model state) of the elaborated design, every input "
     "valuation in every reachable state, hand-driven pysim with snapshot/restore, public-API replay of BFS-tree leaves",
     "serves_properties": []},
]

REGISTRY = {}
NOT_APPLICABLE = {}


def reg(pid, engine, text, technique, note=E1_NOTE, ref="DESIGN.md sec. 4"):
    REGISTRY[pid] = {"engine": engine, "text": text, "technique": technique, "note": note, "ref": ref}
    for e in ENGINES:
        if e["name"] == engine and pid not in e["serves_properties"]:
            e["serves_properties"].append(pid)


reg("C14", "tsx",
    "Complete reachability analysis of BasicFifo/FIFO (depth 1-4 quick, up to 7 thorough; 1-2 bit data) in lock-step with a "
    "deque model: every history of read/peek/write/clear calls of every length is covered for these configurations, "
    "readiness and data checked on every transition.",
    "explicit-state BFS of the real elaborated circuit against a deque reference model")
