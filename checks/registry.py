"""Per-property MANIFEST texts. A property appears here only when its check exists and passes."""

E1_NOTE = ("Trusts Amaranth's pysim as the semantics of the elaborated circuit and the reference model written from the "
           "property statement; configurations, data widths and (where stated in the evidence) depth are bounded.")

ENGINES = [
    {"name": "tsx", "path": "/verif/vlib/tsx.py", "kind_free_text":
     "explicit-state BFS over (register+memory state, reference-model state) of the elaborated design, every input "
     "valuation in every reachable state, hand-driven pysim with snapshot/restore, public-API replay of BFS-tree leaves",
     "serves_properties": []},
]

REGISTRY = {}
NOT_APPLICABLE = {}


def reg(pid, engine, text, technique, note=E1_NOTE, ref="DESIGN.md sec. 4"):
    REGISTRY[pid] = {"engine": engine, "text": text, "technique": technique, "note": note, "ref": ref}
    for e in ENGINES:
        if e["name"] == engine and pid not in e["serves_properties"]:
            e["serves_properties"].append(pid)


reg("C14", "tsx",
    "Complete reachability analysis of BasicFifo/FIFO (depth 1-4 quick, up to 7 thorough; 1-2 bit data) in lock-step with a "
    "deque model: every history of read/peek/write/clear calls of every length is covered for these configurations, "
    "readiness and data checked on every transition.",
    "explicit-state BFS of the real elaborated circuit against a deque reference model")

reg("C15", "tsx",
    "Complete reachability analysis of WideFifo for a grid of (depth, read_width, write_width, write_max_count) in lock-step "
    "with a deque model: every history of read(count)/peek/write(count,data[,max_count])/clear of every length for these "
    "configurations; returned counts/elements, readiness and the fits-check are compared on every transition.",
    "explicit-state BFS of the real elaborated circuit against a deque reference model")
reg("C16", "tsx",
    "Complete reachability analysis of Stack (depth 1-5 quick, 1-8 thorough, power of two or not) against a list model; "
    "every valuation of read/peek/write/clear in every reachable state.",
    "explicit-state BFS of the real elaborated circuit against a list reference model")
reg("C17", "tsx",
    "Complete reachability analysis of Forwarder and Pipe (1-3 bit payload, full input alphabet) against an optional-slot "
    "model with the readiness clauses of the statement; all histories of all lengths.",
    "explicit-state BFS of the real elaborated circuit against a one-slot reference model")
reg("C20", "tsx",
    "Complete reachability analysis of Semaphore for max_count up to 5 (16 thorough) against an integer model, internal "
    "count compared in every state.",
    "explicit-state BFS of the real elaborated circuit against an integer reference model")
reg("C24", "tsx",
    "Complete reachability analysis of ContentAddressableMemory (1-3 entries, 1-2 bit keys and data) against a dict model "
    "with all four methods free to run in the same cycle on pre-state semantics.",
    "explicit-state BFS of the real elaborated circuit against a dict reference model")
reg("C25", "tsx",
    "Complete reachability analysis of PriorityEncoderAllocator over (entries, alloc_ways, free_ways, init) against a "
    "free-mask model; returned identifiers are checked free and pairwise distinct on every transition.",
    "explicit-state BFS of the real elaborated circuit against a free-mask reference model")
reg("C26", "tsx",
    "Complete reachability analysis of PreservedOrderAllocator (1-4 entries, 5 thorough) against an ordered-list model; "
    "order() is read and checked (permutation, prefix = allocation order) in every cycle.",
    "explicit-state BFS of the real elaborated circuit against an ordered-list reference model")
reg("C27", "tsx",
    "Complete reachability analysis of CircularAllocator over (entries, max_alloc, max_free, validation on/off) against a "
    "ring model; returned identifiers, new indices, the allocated count and acceptance of overflowing calls are checked on "
    "every transition.",
    "explicit-state BFS of the real elaborated circuit against a ring reference model")

reg("C19", "tsx",
    "Complete reachability analysis of Serializer (1-3 clients, queue depth 1-3; the server is two real Adapters driven by the "
    "explorer under the in-order-server assumption) against a queue of client ids, and of ArgumentsToResultsZipper against two "
    "queues; every request/response interleaving of every length for these configurations.",
    "explicit-state BFS of the real elaborated circuit against a queue reference model")
reg("C21", "tsx",
    "Complete reachability analysis of MemoryBank for all four (transparent, read_on_resp) combinations with 1-2 read/write "
    "ports, with and without write granularity (thorough: depth up to 4, (2,2) ports, every multiport memory_type, the larger "
    "ones capped and reported) against an ideal array plus per-port pending-response queues.",
    "explicit-state BFS of the real elaborated circuit against an ideal-memory reference model")
reg("C22", "tsx",
    "Complete reachability analysis of AsyncMemoryBank (depth 2-4, width 1-4, up to 3x3 ports, granularity) against an ideal "
    "array with start-of-cycle read semantics.",
    "explicit-state BFS of the real elaborated circuit against an ideal-memory reference model")
reg("C23", "tsx",
    "Miter of each multiport memory against a real amaranth.lib.memory.Memory with identical init/ports/transparency/granularity, "
    "BFS over the joint state with every port valuation: MultiReadMemory completely, XOR/ILVT memories for all port histories up "
    "to the depth reported per configuration (3 quick, 4-6 thorough). One open known finding (ILVT + write granularity).",
    "explicit-state BFS of a miter circuit (implementation vs. Amaranth's own memory), depth-bounded for the XOR/ILVT memories",
    note=E1_NOTE + " amaranth.lib.memory.Memory is trusted as the ideal memory; XOR/ILVT configurations are depth-bounded, not complete.")

ENGINES.append({"name": "dsl", "path": "/verif/vlib/dsl.py",
                "kind_free_text": "bounded-exhaustive enumeration of Transactron designs of a small grammar (vlib/families.py), each "
                "built with the real library, explored by tsx over all register states x all input valuations, and compared with a "
                "reference interpreter of the design language written from the property statements (vlib/dsl.py, vlib/e2.py)",
                "serves_properties": []})
E2_NOTE = ("Trusts Amaranth's pysim, the reference interpreter vlib/dsl.py (call-site activity, static conflict relation, "
           "well-formedness computed from syntax) and is bounded to the design families listed in the evidence; only the scheduler's "
           "choice of running transactions is taken from the circuit.")

reg("C01", "dsl", "Every design of the flat/chain/ctrl/nest families (2-3 transactions, 2-4 methods, every exclusive/nonexclusive "
    "assignment, calls plain / enable_call / If / If-Else / Elif / Switch / FSM / parallel Ifs, bodies defined inside alternatives and "
    "in separate modules) under both schedulers, all register states x all input valuations: <=1 active call site per exclusive "
    "method and no two statically conflicting transactions running.",
    "bounded-exhaustive design enumeration + explicit-state exploration of each elaborated design against a reference interpreter",
    note=E2_NOTE)
reg("C02", "dsl", "Every assignment of add_conflict(U/L/R)/schedule_before/none to every pair of 2-3 (4 thorough) bodies, on "
    "transactions and on methods, plus same-transaction and nonexclusive-mid shapes, both schedulers, all valuations: related bodies "
    "never both run. One open known finding (same transaction calling both ends, undefined priority).",
    "bounded-exhaustive design enumeration + explicit-state exploration against a reference interpreter", note=E2_NOTE)
reg("C03", "dsl", "All families incl. validate_arguments and nesting, both schedulers, all states x valuations: run(T) implies the "
    "reference 'fully enabled' predicate; the ready signals are compared with the reference; plus a transaction nested in a body "
    "that is simultaneous (Connect) with a live / an uncalled partner.",
    "bounded-exhaustive design enumeration + explicit-state exploration against a reference interpreter", note=E2_NOTE)
reg("C04", "dsl", "All families incl. provide() aliases and nested bodies, both schedulers: observed Method.run equals 'some call "
    "site active' in both directions in every state and valuation; nested bodies never run without their parent.",
    "bounded-exhaustive design enumeration + explicit-state exploration against a reference interpreter", note=E2_NOTE)
reg("C05", "dsl", "Designs with 1-bit arguments/results: data_in of a running exclusive method equals the argument of its single "
    "active site, nonexclusive methods see a user combiner (parity of the active calls with argument 0) over exactly the active sites, callers see the method output, also "
    "through aliases; all valuations.",
    "bounded-exhaustive design enumeration + explicit-state exploration against a reference interpreter", note=E2_NOTE)
reg("C06", "dsl", "One assignment per domain (comb/sync/av_comb/top_comb) at every block position of nested bodies and If/Switch/"
    "FSM blocks; BFS over the witness registers and FSM states with all valuations; each witness compared with its defining "
    "formula (run and conditions / conditions only / always).",
    "bounded-exhaustive design enumeration + explicit-state exploration against a reference interpreter", note=E2_NOTE)
reg("C07", "dsl", "All families under the eager scheduler: a fully enabled transaction that does not run has a running transaction "
    "that conflicts with it according to the reference conflict relation computed from syntax (so spurious conflict edges are "
    "detected as wasted cycles).",
    "bounded-exhaustive design enumeration + explicit-state exploration against a reference interpreter", note=E2_NOTE)
reg("C08", "dsl", "Relation families with 2-3 (4 thorough) bodies: for every prioritised pair with both sides fully enabled the "
    "lower side runs only if the higher is blocked by another running conflicting transaction.",
    "bounded-exhaustive design enumeration + explicit-state exploration against a reference interpreter", note=E2_NOTE)
reg("C10", "dsl", "Every accepted well-formed design of all families, a dedicated Forwarder/Pipe-style family (ready reads run of an "
    "earlier-scheduled body while the callers conflict) and every library-component harness is passed through Amaranth's netlist "
    "builder; no CombinationalCycle.",
    "bounded-exhaustive design enumeration, each design decided by Amaranth's bit-precise netlist cycle check",
    note=E2_NOTE + " check_comb_cycles of amaranth.hdl._ir is the definition of a combinational cycle.")
reg("C11", "dsl", "Every design of all families plus deliberately ill-formed ones: the library's accept/reject decision equals the "
    "reference well-formedness predicate computed from syntax (any exception = rejection).",
    "bounded-exhaustive design enumeration, elaboration verdict compared with a reference well-formedness predicate",
    note=E2_NOTE)

reg("C09", "dsl", "Designs without intra-component ready dependencies under trivial_roundrobin_cc_scheduler: BFS over arbiter "
    "registers x per-transaction wait counters with every valuation in every state; per component of the reference conflict graph "
    "<=1 grant, a grant whenever something is fully enabled, and no wait of |component| consecutive enabled cycles.",
    "bounded-exhaustive design enumeration + explicit-state exploration of arbiter state x monitor against a reference interpreter",
    note=E2_NOTE)
reg("C12", "tsx", "Every condition() design of a bounded family (transaction / method with 1-2 callers, also conditionally called; "
    "never called, called through a wrapper; 1-3 branches + default; nonblocking x priority; shared callees, also nonexclusive ones shared "
    "with the enclosing body; up to two nesting levels; multi-bit conditions; validate_arguments variant) x all input "
    "valuations; the five clauses of the statement are evaluated per condition block on branch witnesses.",
    "bounded-exhaustive design enumeration + exhaustive input enumeration on the elaborated design",
    note="Trusts pysim; 'admissible' = condition true, callees ready, arguments valid, inner block able to proceed; branch callees are "
    "not shared with transactions outside the block.")
reg("C13", "tsx", "Every design connecting 1-3 writers and 1-3 readers through Connect (forward/reverse 1-bit data, optional extra "
    "callee per caller), chains of Connects, Connect halves nobody calls next to live pairs, user-declared simultaneous() groups of "
    "three, simultaneous_alternatives, data-exchanging user methods and transaction+method pairs x all input valuations: both sides run in exactly the same cycles and the data "
    "of the running pair is exchanged in both directions.",
    "bounded-exhaustive design enumeration + exhaustive input enumeration on the elaborated design",
    note="Trusts pysim; 1-bit payloads.")

ENGINES.append({"name": "comb", "path": "/verif/vlib/comb.py",
                "kind_free_text": "single-state special case of tsx: a small circuit built by the real library code is evaluated by "
                "pysim on every valuation of its free inputs (every width/size of a bounded grid) and compared with a reference "
                "function written from the documentation; sampled valuations re-evaluated through the public simulator API",
                "serves_properties": []})
COMB_NOTE = ("Trusts Amaranth's pysim and the Python reference definitions taken from the docstrings; sizes are bounded as listed in "
             "the evidence; outputs the documentation leaves undefined are not compared.")

reg("C36", "comb", "Every bit helper of the statement (popcount, count_leading/trailing_zeros, cyclic_mask, extract/clear_lowest_set_bit, "
    "the four mask_* helpers, mod_incr, mod_add, sum/or/and/min/max_value over flat, list, dict and View bundles, mux and switch_value "
    "on plain, signed and View operands) for every width 1-6 (9 thorough), modulus 1-9 (17), on every input valuation.",
    "exhaustive input enumeration on the elaborated circuit for every width of a bounded grid", note=COMB_NOTE)
reg("C37", "comb", "shift_left/right, rotate_left/right, generic_shift_* and the four vector variants (plain, struct-view, array-view "
    "elements; explicit and default placeholder) for every width 1-6 (9), vector length 1-4 (5), every value x offset in 0..width x "
    "placeholder.",
    "exhaustive input enumeration on the elaborated circuit for every width of a bounded grid", note=COMB_NOTE)
reg("C38", "comb", "one_hot_mux/OneHotMux (priority x default x create), MultiPriorityEncoder, RingMultiPriorityEncoder (all first/last), "
    "StableSelectingNetwork, the six coding classes (+ Gray round trip) and OneHotSwitchDynamic for every size of a bounded grid on "
    "every input valuation.",
    "exhaustive input enumeration on the elaborated circuit for every size of a bounded grid", note=COMB_NOTE)
reg("C39", "tsx", "Complete reachability analysis of OneHotRoundRobin (count 1-5, 6 thorough) and RoundRobin (count 1-4, 5 thorough) in "
    "product with a monitor holding one wait counter per requester, every request vector in every state: valid iff requested, one-hot "
    "grant among the requesters, no requester waits count cycles.",
    "explicit-state BFS of the real elaborated circuit x wait-counter monitor",
    note=E1_NOTE + " 'grants none' is read as valid low; RoundRobin's registered outputs are compared across the clock edge.")

reg("C18", "tsx", "ConnectTrans, CrossbarConnectTrans, MethodMap, MethodFilter (use_condition x default), MethodProduct, MethodTryProduct "
    "(1-3 targets, default and custom combiners), NonexclusiveWrapper (two callers) and Collector (1-3 targets, complete BFS over its "
    "Forwarder) between real AdapterTrans callers and real Adapter targets: every readiness pattern x argument x returned value, each "
    "clause of the statement as an equation on the run/ready/data pins.",
    "exhaustive input enumeration (complete BFS for Collector) on the real elaborated circuit against per-class reference equations")
reg("C29", "tsx", "Complete reachability analysis of StreamSource (free o.ready), StreamSink (read + two peek callers, free i.valid/"
    "payload) and StreamModuleWrapper around two plain-Amaranth stream modules, against queue monitors: valid iff an item waits, payload "
    "stable while stalled, every item transferred exactly once in order, read.ready iff i.valid, i.ready iff read runs.",
    "explicit-state BFS of the real elaborated circuit against queue monitors")
reg("C30", "tsx", "Complete reachability analysis of InputSampler and OutputBuffer for all eight (edge, polarity, synchronize) settings, "
    "every (trigger, data, enable) valuation in every state, against a model holding the last two trigger levels.",
    "explicit-state BFS of the real elaborated circuit against a two-cycle trigger-history model")

reg("C31", "tsx", "Complete reachability analysis of HwCounter (2-3 bit registers, 1-3 ways), TaggedCounter (15 tag sets: ranges, lists "
    "incl. sparse one-hot, unsorted and negative values, IntEnums; 1-2 ways) and HwExpHistogram (1-4 buckets, 1-3 bit samples and "
    "registers, 1-3 ways) with every call valuation in every state and every register compared with an integer model (wrap-around "
    "reachable); with metrics disabled a transaction calling every metric method runs whenever ready and the design has no state.",
    "explicit-state BFS of the real elaborated circuit against integer reference models")
reg("C32", "tsx", "Complete reachability analysis of FIFOLatencyMeasurer, WideFIFOLatencyMeasurer and TaggedLatencyMeasurer (slots 1-4, "
    "max_latency 1-6, ways 1-2, counts <= 2) in lock-step with a model of event ages; the calls made to histogram.add are observed: "
    "exactly one per finished event with sample == age for ages <= max_latency.",
    "explicit-state BFS of the real elaborated circuit against an event-age reference model",
    note=E1_NOTE + " The histogram's accumulator registers are excluded from the state key after a structural check that nothing but "
    "their own update reads them; inputs respect the documented usage (stop only events in flight, unique slot tags).")

ENGINES.append({"name": "seq", "path": "/verif/vlib/seq.py",
                "kind_free_text": "operation-sequence explorer for plain Python objects: BFS over all operation histories up to a depth "
                "on a fresh real object (every history replayed from scratch), canonical-state de-duplication, reference model in "
                "lock-step", "serves_properties": []})
reg("C42", "seq", "All add/get/get_optional histories on a real DependencyManager for ten keys (simple, default, non-locking, list, "
    "custom combining cached/uncached, UnifierKey, parametrised key instances), alone to depth 6 (8 thorough) and in pairs to depth 4 "
    "(5), against a dict-of-lists + lock-set model; de-duplication on the manager's full contents.",
    "explicit-state BFS over operation histories of the real object against a reference model",
    note="Bounded depth and two dependency values; histories are replayed on fresh objects; exception types are not compared.")

ENGINES.append({"name": "enum", "path": "/verif/vlib/enumr.py",
                "kind_free_text": "exhaustive case enumeration for pure-Python helpers: every case of a bounded universe runs the real "
                "library code and is compared with a reference definition (the degenerate explorer: one state, one transition per "
                "case); cases that produce Amaranth statements/values are additionally executed by pysim on every input valuation",
                "serves_properties": []})
reg("C40", "enum", "Every ordered pair of ~60 (quick) structured values (Views over struct/array/union layouts of depth <= 2, dict/list "
    "forms incl. dicts of Views and integer constants, bare signals) x 14 field selections: assign() raises exactly when the reference "
    "says so; otherwise its statements are executed by pysim on every right-hand valuation and every left-hand bit is compared "
    "(selected bits copied, all others keep their reset value).",
    "bounded-exhaustive enumeration of argument pairs and selections; accepted cases decided by exhaustive input enumeration on pysim",
    note="Trusts pysim and the reference selection semantics transcribed from assign()'s docstring; leaf widths 1-2, depth <= 2.")
reg("C41", "enum", "transpose/transpose_layout on every two-level layout with 1-3 x 1-3 keys of at most 11 (14) bits: every bit pattern as "
    "Const and every View valuation on pysim (element swap, involution); 11 invalid layouts must raise; signed_to_int/int_to_signed on "
    "every value for xlen 1-8 (10); align_* for 0-64 (300) x powers 0-5 (8); make_hashable on every pair of ~750 nested values.",
    "bounded-exhaustive enumeration of layouts, bit patterns and integers against reference definitions",
    note="Bounded sizes; View transposition trusts pysim.")

reg("C43", "enum", "Every history (readiness pattern of the mocked method of length 4 (6 thorough) x start cycle x call/call_try x argument "
    "sequence x mock delay x process insertion order) run in a real PysimSimulator with the real TestbenchIO and MethodMock processes; "
    "a monitor samples the adapter wires every cycle; helper results, execution cycles (exactly one per successful call, none after), "
    "mock values and effect counts are compared with a reference computed from the history alone; also a mock whose argument is a DUT "
    "register changing on the call edge, and two-call CallTriggers (plain / until_done / until_all_done).",
    "bounded-exhaustive enumeration of stimulus histories, each executed on the real simulator processes and compared with a reference",
    note="Trusts Amaranth's simulator scheduling; histories bounded as listed.")

reg("C34", "enum", "A design with eight log records (top level / under m.If / inside a method body / string and signed formats / no fields "
    "/ ERROR / assertion / a record after the ERROR ones, three logger names) simulated with the real make_logging_process for every "
    "input history (length 1 full alphabet x three level/namespace filters; length 2, 3 thorough); a logging.Handler collects (cycle, "
    "logger, level, message), compared with a reference list built with Python's str.format; the first ERROR must call on_error once "
    "and end the run with a failure.",
    "bounded-exhaustive enumeration of stimulus histories, each executed on the real simulator processes and compared with a reference",
    note="Trusts Amaranth's simulator; one fixed design with eight records; 2-bit fields.")

reg("C33", "enum", "A design with five emission sites (top level, under m.If, inside a transaction body, top_emit, default trigger; "
    "unsigned/bool/signed/IntEnum dynamic fields, int/str/Enum statics) simulated with the real capture process for every input "
    "history (length 1 full, length 2, 3 thorough); raw records, decoded events, save/load, EventLogWriter/Reader and "
    "GeneratedEvLogSampler with and without the packed trigger vector must equal the reference; EventConsumer.run dispatches stably in "
    "cycle order.",
    "bounded-exhaustive enumeration of stimulus histories, each executed on the real simulator processes and compared with a reference",
    note="Trusts Amaranth's simulator; the Yosys-produced Verilog name map is not exercised (sampler handles are synthesised).")

reg("C35", "enum", "For every well-formed design of the small DSL families (flat, chain, rel, nest, ctrl; <= 8 input bits) under both "
    "schedulers the real profiler_process runs in a real simulation whose stimulus walks twice through every input valuation, next to "
    "a monitor sampling ready/run of every body; every CycleProfile (running set, callers, locked entries) is compared with the monitor "
    "and the reference call/conflict relations; analyze_transactions counts and encode/decode round trip are checked.",
    "bounded-exhaustive design enumeration, each design simulated over every input valuation with the real profiler process",
    note="Trusts Amaranth's simulator and the reference relations of vlib/dsl.py; designs bounded to the listed families.")

reg("C28", "tsx", "Every pipeline shape of a bounded grammar (source, 0-2 (3 thorough) middle nodes from {function stage overwriting / adding "
    "a field, called external method, extra source with and without no_dependency}, sink; every link a Pipe or FIFO of depth 1-2; "
    "optional stage ready inputs; external clear) built with the real PipelineBuilder and explored completely against a monitor with "
    "one queue of in-flight items per link: nodes fire only on the oldest waiting item, each item passes every node once and in order, "
    "the sink returns the composed fields, no link overruns, clear empties all links and calls the external clear.",
    "bounded-exhaustive enumeration of pipeline shapes + explicit-state BFS of each elaborated pipeline against a queue monitor",
    note=E1_NOTE + " Node firing is observed through adapter pins, comb witnesses inside stage functions and the run of the "
    "no_dependency decoupling pipe (reached through a recording subclass of PipelineBuilder); 1-bit fields.")
