#!/usr/bin/env python3
"""python3 /verif/replay.py <replay.json>  -- rebuilds the design with the real library and replays the recorded
input path through the public simulator API (no explorer); exit 1 if the violation reproduces, 0 otherwise."""
import json
import os
import sys

VENV_PY = "/venv/bin/python"
HERE = os.path.dirname(os.path.abspath(__file__))


def main():
    if os.environ.get("PYTHONHASHSEED") != "0" or os.path.realpath(sys.executable) != os.path.realpath(VENV_PY):
        env = dict(os.environ, PYTHONHASHSEED="0", TRANSACTRON_VERIF="1", PYTHONWARNINGS="ignore")
        os.execve(VENV_PY, [VENV_PY, os.path.join(HERE, "replay.py")] + sys.argv[1:], env)
    sys.path.insert(0, HERE)
    os.chdir(HERE)
    import importlib
    rec = json.load(open(sys.argv[1]))
    rp = rec["replay"]
    if rp["kind"] == "e1":
        from vlib import tsx
        H = getattr(importlib.import_module(rp["module"]), rp["cls"])
        h = H(**rp["cfg"])
        try:
            drv = h.build()
        except tsx.CombLoop as e:
            print("REPRODUCED: combinational loop:", str(e)[:300])
            sys.exit(1)
        except tsx.HarnessError:
            raise
        except Exception as e:      # the library refuses to build the configuration (elaboration-verdict violations)
            print(f"REPRODUCED: building the design raises {type(e).__name__}: {str(e).strip()[:300]}")
            sys.exit(1)
        path = [tuple(x) for x in rp["path"]]
        out = tsx.replay_path(drv, h, path)
        for k, x in enumerate(path):
            print(f"  cycle {k}: {h.describe(x)}")
        if out:
            v = out[0]
            print(f"REPRODUCED at cycle {v['step']}: {v['clauses']}  observed={h.describe_obs(v['obs'])}")
            sys.exit(1)
        print("not reproduced")
        sys.exit(0)
    mod = importlib.import_module(rp["module"])
    ok = mod.replay(rp)
    if ok:
        print("not reproduced")
        sys.exit(0)
    print("REPRODUCED")
    sys.exit(1)


if __name__ == "__main__":
    main()
