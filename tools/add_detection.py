#!/usr/bin/env python3
"""tools/add_detection.py <seeded-name> <Cxx>[,<Cyy>...] [patchfile]  -- (re)runs checks against a scratch copy of /repo's
current tree with the seeded patch applied (tools/try_seed.sh) and merges the verdicts into seeded/<name>/meta.json under
"checks" (key = property id; re-running a property overwrites its entry, the suite confirmation is left untouched)."""
import json, os, subprocess, sys, time

HERE = os.path.dirname(os.path.dirname(os.path.abspath(__file__)))
name, props = sys.argv[1], sys.argv[2].split(",")
d = os.path.join(HERE, "seeded", name)
patch = sys.argv[3] if len(sys.argv) > 3 else os.path.join(d, "patch.diff")
mp = os.path.join(d, "meta.json")
meta = json.load(open(mp)) if os.path.exists(mp) else {"name": name, "properties": props, "steps": {}, "checks": {}}
for p in props:
    t0 = time.time()
    r = subprocess.run([os.path.join(HERE, "tools", "try_seed.sh"), patch, p], capture_output=True, text=True)
    line = next((l for l in r.stdout.splitlines() if f" {p} " in l), r.stdout.strip()[-200:])
    verdict = "DETECTED" if " DETECTED" in line else "MISSED" if " MISSED" in line else "ERROR"
    meta.setdefault("checks", {})[p] = {"verdict": verdict, "lines": [line[:300]], "wall_s": round(time.time() - t0),
                                        "against": "scratch copy of /repo's current tree + " + os.path.basename(patch),
                                        "rerun_after_strengthening": True}
    print(name, p, verdict)
json.dump(meta, open(mp, "w"), indent=1)
