#!/usr/bin/env python3
"""tools/appendix_c.py -- rewrites the table of DESIGN.md Appendix C from evidence/*.json (run after a quick sweep)."""
import json
import os
import re

HERE = os.path.dirname(os.path.dirname(os.path.abspath(__file__)))
man = json.load(open(os.path.join(HERE, "MANIFEST.json")))
eng = {}
for c in man.get("checks", []):
    pid = c.get("property_id") or c.get("id")
    eng[pid] = c.get("engine", "")
rows = []
for i in range(1, 44):
    pid = f"C{i:02d}"
    p = os.path.join(HERE, "evidence", pid + ".json")
    if not os.path.exists(p):
        continue
    cov = json.load(open(p))["coverage"]
    rows.append(f"| {pid} | {eng.get(pid, '')} | {cov.get('states')} | {cov.get('transitions')} | "
                f"{cov.get('traces_validated_against_impl')} | {cov.get('exhaustive')} |")
dp = os.path.join(HERE, "DESIGN.md")
s = open(dp).read()
head = "| id | engine | states | transitions | validated traces | exhaustive within the stated bound |\n|---|---|---|---|---|---|\n"
i = s.index(head) + len(head)
j = i
while s[j:j + 3] == "| C":
    j = s.index("\n", j) + 1
s = s[:i] + "\n".join(rows) + "\n" + s[j:]
open(dp, "w").write(s)
print(f"{len(rows)} rows")
