#!/usr/bin/env python3
"""tools/confirm_seed.py <worktree> <seeddir> <name> <Cxx>[,<Cyy>..] [--no-suite]

Confirms one seeded change delivered by an independent sub-agent, in its scratch worktree (never in /repo):
  1. demo passes on the clean tree, 2. patch applies, 3. demo fails with the patch,
  4. the repository's whole test suite still passes with the patch (failures are re-run alone; a test that also fails alone
     on the clean tree, or that passes when re-run alone, is reported as a flake of this loaded machine, not as a failure),
  5. the listed /verif checks are run against the patched worktree (PYTHONPATH points the editable package at the worktree,
     evidence/replays are redirected away from /verif) and must report a VIOLATION.
Writes /verif/seeded/<name>/{patch.diff,demo.py,NOTES.md,meta.json}."""
import json, os, re, shutil, subprocess, sys, time

wt, seeddir, name, props = sys.argv[1:5]
props = props.split(",")
no_suite = "--no-suite" in sys.argv
tier = "quick"
PY = "/venv/bin/python"
env = dict(os.environ, PYTHONPATH=wt, PYTHONHASHSEED="0")
out = os.path.join("/verif/seeded", name)
os.makedirs(out, exist_ok=True)
meta = {"name": name, "properties": props, "source": "independent sub-agent given only the property text", "steps": {}}


def sh(cmd, **kw):
    return subprocess.run(cmd, shell=True, cwd=wt, env=env, capture_output=True, text=True, **kw)


def git_clean():
    sh("git checkout -- . && git status --short | grep -v '^??' ; true")


def run_demo():
    demo = os.path.join(seeddir, "demo.py")
    r = sh(f"timeout 600 {PY} {demo}")
    return r.returncode, (r.stdout + r.stderr)[-600:]


def pytest(args, n=int(os.environ.get("CONFIRM_N", "8"))):
    r = sh(f"timeout 7200 {PY} -m pytest -q -p no:cacheprovider --timeout=900 -n {n} {args} 2>&1 | tail -60")
    txt = r.stdout
    failed = re.findall(r"^(?:FAILED|ERROR) (\S+)", txt, re.M)
    summary = [l for l in txt.splitlines() if re.search(r"\d+ (passed|failed|error)", l)]
    return failed, (summary[-1] if summary else txt[-300:])


git_clean()
rc0, o0 = run_demo()
meta["steps"]["demo_clean"] = {"rc": rc0, "tail": o0[-300:]}
patch = os.path.join(seeddir, "patch.diff")
r = sh(f"git apply --check {patch} && git apply {patch}")
meta["steps"]["apply"] = {"rc": r.returncode, "err": r.stderr[-300:]}
ok = rc0 == 0 and r.returncode == 0
if ok:
    rc1, o1 = run_demo()
    meta["steps"]["demo_patched"] = {"rc": rc1, "tail": o1[-400:]}
    ok = rc1 != 0
if ok and not no_suite:
    t0 = time.time()
    failed, summary = pytest("test")
    meta["steps"]["suite_patched"] = {"summary": summary, "failed_first_pass": failed, "wall_s": round(time.time() - t0)}
    real = []
    flaky = []
    # tests the pinned baseline itself lists as flaky (not in its stable_pass set) never count
    try:
        base = json.load(open("/root/.vp/BASELINE.json"))
        base_flaky = set()
        for t in base.get("flaky", []) + base.get("dropped_after_offline", []):
            mod, rest = t.split("::", 1)
            parts = mod.split(".")
            base_flaky.add("/".join(parts[:-1]) + ".py::" + parts[-1] + "::" + rest)
    except Exception:
        base_flaky = set()
    meta["steps"]["suite_patched"]["baseline_flaky_ignored"] = [t for t in failed if t in base_flaky]
    failed = [t for t in failed if t not in base_flaky]
    for t in failed:
        f2, s2 = pytest(f"'{t}' --hypothesis-profile=ci", n=0)
        if not f2:
            flaky.append(t)
            continue
        # still failing alone: does it fail on the clean tree too?
        sh(f"git apply -R {patch}")
        f3, s3 = pytest(f"'{t}' --hypothesis-profile=ci", n=0)
        sh(f"git apply {patch}")
        (flaky if f3 else real).append(t)
    meta["steps"]["suite_patched"]["flaky_or_baseline_failures"] = flaky
    meta["steps"]["suite_patched"]["real_failures"] = real
    ok = not real and "passed" in summary
meta["confirmed_breaking_and_suite_green"] = bool(ok)
det = {}
if ok or no_suite:
    for p in props:
        vout = f"/tmp/vout_{name}_{p}"
        shutil.rmtree(vout, ignore_errors=True)
        os.makedirs(vout)
        e2 = dict(env, VERIF_OUT_DIR=vout)
        t0 = time.time()
        r = subprocess.run(["python3", "/verif/check.py", p, "--tier", tier], env=e2, capture_output=True, text=True)
        lines = [l for l in r.stdout.splitlines() if l.startswith(("VIOLATION", "  ", p + " "))][:5]
        lib = ""
        try:
            lib = json.load(open(os.path.join(vout, "evidence", f"{p}.json")))["coverage"].get("library_under_test", "")
        except Exception:
            pass
        det[p] = {"exit": r.returncode, "verdict": {0: "MISSED", 1: "DETECTED", 2: "HARNESS-ERROR"}.get(r.returncode, "?"),
                  "lines": lines, "stderr": r.stderr[-300:] if r.returncode == 2 else "", "library_under_test": lib,
                  "wall_s": round(time.time() - t0)}
        shutil.rmtree(vout, ignore_errors=True)
meta["checks"] = det
git_clean()
for f in ("patch.diff", "demo.py", "NOTES.md"):
    src = os.path.join(seeddir, f)
    if os.path.exists(src):
        shutil.copy(src, os.path.join(out, f))
json.dump(meta, open(os.path.join(out, "meta.json"), "w"), indent=1)
print(name, "confirmed" if ok else "NOT-CONFIRMED", {p: d["verdict"] for p, d in det.items()})
