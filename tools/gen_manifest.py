#!/usr/bin/env python3
"""Regenerates /verif/MANIFEST.json from checks/registry.py and properties.jsonl."""
import json, os, sys
HERE = os.path.dirname(os.path.dirname(os.path.abspath(__file__)))
sys.path.insert(0, HERE)
from checks.registry import REGISTRY, ENGINES, NOT_APPLICABLE

props = [json.loads(l) for l in open(os.path.join(HERE, "properties.jsonl"))]
checks, na = [], []
for p in props:
    pid = p["id"]
    r = REGISTRY.get(pid)
    if r is None:
        na.append({"property_id": pid, "reason": NOT_APPLICABLE.get(pid, "check not built yet; see DESIGN.md sec. 4 for the plan")})
        continue
    checks.append({
        "property_id": pid,
        "quick_cmd": f"python3 /verif/check.py {pid} --tier quick",
        "thorough_cmd": f"python3 /verif/check.py {pid} --tier thorough",
        "evidence_file": f"/verif/evidence/{pid}.json",
        "replay_cmd_template": "python3 /verif/replay.py {path}",
        "engine": r["engine"],
        "level_claimed": {"category": "model_checking", "text": r["text"], "design_ref": r.get("ref", "DESIGN.md sec. 4")},
        "level_note": r["note"],
        "technique": r["technique"],
    })
man = {
    "version": 1,
    "setup_cmd": "/venv/bin/python -c 'import amaranth, transactron, networkx' && python3 /verif/tools/gen_manifest.py --check",
    "hooks": {"guard": "TRANSACTRON_VERIF", "enable": "no source hooks exist; checks import /repo through the editable install and set TRANSACTRON_VERIF=1",
              "baseline_off_cmd": "cd /repo && /venv/bin/python -m pytest -ra -q -p no:cacheprovider --timeout=900 --continue-on-collection-errors",
              "source_commits": [], "add_only": True},
    "engines": ENGINES,
    "checks": checks,
    "notes": "All checks are explicit-state / bounded-exhaustive model checking of the real library code executed by Amaranth's pysim; see DESIGN.md.",
    "not_applicable": na,
}
out = os.path.join(HERE, "MANIFEST.json")
txt = json.dumps(man, indent=1) + "\n"
if "--check" in sys.argv:
    cur = open(out).read() if os.path.exists(out) else ""
    if cur != txt:
        print("MANIFEST.json is stale; run tools/gen_manifest.py", file=sys.stderr)
        sys.exit(1)
    sys.exit(0)
open(out, "w").write(txt)
print(f"{len(checks)} checks, {len(na)} not claimed")
