#!/usr/bin/env python3
"""tools/mut.py <relpath> <old> <new> <Cxx> [tier]  -- textual mutant in /repo, run the check, always revert.
Prints DETECTED / MISSED.  The replacement must match exactly once unless --all is given."""
import subprocess, sys, os
args = [a for a in sys.argv[1:] if a != "--all"]
rel, old, new, prop = args[:4]
tier = args[4] if len(args) > 4 else "quick"
p = os.path.join("/repo", rel)
if subprocess.run(["git", "-C", "/repo", "diff", "--quiet"]).returncode != 0:
    sys.exit("/repo dirty")
s = open(p).read()
n = s.count(old)
if n == 0 or (n > 1 and "--all" not in sys.argv):
    sys.exit(f"pattern matches {n} times")
open(p, "w").write(s.replace(old, new))
try:
    r = subprocess.run(["python3", "/verif/check.py", prop, "--tier", tier], capture_output=True, text=True)
    tail = [l for l in r.stdout.splitlines() if l.startswith(("VIOLATION", "  ", prop))][:4]
    print("\n".join(tail))
    if r.returncode == 2:
        print(r.stderr[-800:])
    print({0: "MISSED", 1: "DETECTED", 2: "HARNESS-ERROR"}.get(r.returncode, r.returncode))
finally:
    subprocess.run(["git", "-C", "/repo", "checkout", "--", "."])
