#!/usr/bin/env python3
"""tools/mutants.py [name...]  -- own mutants of /repo as patch files under /verif/mutants/, each tried against its check
on a scratch copy of /repo (tools/try_seed.sh); /repo itself is never modified.  Appends verdicts to mutants/results.txt."""
import difflib, os, subprocess, sys

HERE = os.path.dirname(os.path.dirname(os.path.abspath(__file__)))
M = [
    # name, property(ies), file, old, new
    ("c18_connecttrans_data", "C18", "transactron/lib/connectors.py",
     "m.d.top_comb += data2.eq(self.method2(m, data1))", "m.d.top_comb += data2.eq(self.method2(m, data2))"),
    ("c18_tryproduct_success", "C18", "transactron/lib/transformers.py",
     "                    m.d.comb += success.eq(1)\n", "                    m.d.top_comb += success.eq(1)\n"),
    ("c29_valid_cleared_while_writing", "C29", "transactron/lib/stream.py",
     "with m.If(self.o.ready & ~self.write.run):", "with m.If(self.o.ready):"),
    ("c30_old_trigger_init", "C30", "transactron/lib/basicio.py",
     "old_trigger = Signal(init=not self._polarity)", "old_trigger = Signal(init=self._polarity)"),
    ("c31_counter_any", "C31", "transactron/lib/metrics.py",
     "self.count.value + popcount(Cat(method.run for method in self.incr))",
     "self.count.value + Cat(method.run for method in self.incr).any()"),
    ("c31_last_bucket", "C31", "transactron/lib/metrics.py",
     "should_incr = (bucket_idx >= i - 1) & (sample != 0)", "should_incr = (bucket_idx > i - 1) & (sample != 0)"),
    ("c32_duration_plus_one", "C32", "transactron/lib/metrics.py",
     "duration = (epoch - ret.data[i]).as_unsigned()[:-1]", "duration = (epoch - ret.data[i] + 1).as_unsigned()[:-1]"),
    ("c32_tagged_sign_bit", "C32", "transactron/lib/metrics.py",
     "duration = (epoch - ret.data).as_unsigned()[:-1]", "duration = (epoch - ret.data).as_unsigned()"),
    ("c36_ctz_all", "C36", "transactron/utils/amaranth_ext/functions.py",
     "return Mux(s[:partition].any(), Cat(lower_value, 0), Cat(upper_value, 1))",
     "return Mux(s[:partition].all(), Cat(lower_value, 0), Cat(upper_value, 1))"),
    ("c36_mod_incr", "C36", "transactron/utils/amaranth_ext/functions.py",
     "return Mux(sig == mod - 1, 0, sig + 1)", "return Mux(sig == mod, 0, sig + 1)"),
    ("c37_generic_shift_operands", "C37", "transactron/utils/amaranth_ext/shifter.py",
     "return Cat(value1, value2).bit_select(offset, len(value1))", "return Cat(value2, value1).bit_select(offset, len(value1))"),
    ("c38_ring_first_ge_last", "C38", "transactron/utils/amaranth_ext/elaboratables.py",
     "with m.If(self.first > self.last):", "with m.If(self.first >= self.last):"),
    ("c38_ssn_merge", "C38", "transactron/utils/amaranth_ext/elaboratables.py",
     "m.d.comb += merged[i].eq(Mux(cnt_a <= i, b[i - cnt_a], a[i]))", "m.d.comb += merged[i].eq(Mux(cnt_a < i, b[i - cnt_a], a[i]))"),
    ("c39_onehot_order", "C39", "transactron/utils/amaranth_ext/elaboratables.py",
     "for j in itertools.chain(reversed(range(i)), reversed(range(i + 1, self.count))):",
     "for j in itertools.chain(reversed(range(i + 1, self.count)), reversed(range(i))):"),
    ("c40_common_is_union", "C40", "transactron/utils/assign.py",
     "names = lhs_fields & rhs_fields", "names = lhs_fields | rhs_fields"),
    ("c40_no_shape_check_for_views", "C40", "transactron/utils/assign.py",
     "            isinstance(lhs, ValueCastable)\n            or isinstance(rhs, ValueCastable)\n            or (lhs_strict",
     "            (lhs_strict"),
    ("c41_transpose_order", "C41", "transactron/utils/amaranth_ext/data.py",
     "for i_key in i_keys for o_key in o_keys)", "for o_key in o_keys for i_key in i_keys)"),
    ("c41_signed_to_int", "C41", "transactron/utils/data_repr.py",
     "return x | -(x & (2 ** (xlen - 1)))", "return x | -(x & (2 ** xlen - 1))"),
    ("c16_stack_addr", "C16", "transactron/lib/stack.py",
     "m.d.comb += data_rdport.addr.eq(next_level - 1)", "m.d.comb += data_rdport.addr.eq(next_level)"),
    ("c01_sched_range", "C01,C07", "transactron/core/schedulers.py",
     "conflicts = [ccl[j].run for j in range(k) if ccl[j] in gr[transaction]]",
     "conflicts = [ccl[j].run for j in range(k - 1) if ccl[j] in gr[transaction]]"),
    ("c04_granted_without_enable", "C04,C05", "transactron/core/manager.py",
     "transaction.run & Cat(call.enable for call in method_map.info_by_call[(transaction, method)]).any()",
     "transaction.run"),
    ("c08_priority_swapped", "C08,C10", "transactron/core/manager.py",
     "                case Priority.LEFT:\n                    pgr[end].add(begin)\n                case Priority.RIGHT:\n                    pgr[begin].add(end)",
     "                case Priority.LEFT:\n                    pgr[begin].add(end)\n                case Priority.RIGHT:\n                    pgr[end].add(begin)"),
    ("c02_conflict_not_symmetric", "C02,C01", "transactron/core/manager.py",
     "                cgr[begin].add(end)\n                cgr[end].add(begin)\n", "                cgr[begin].add(end)\n"),
    ("c07_implicit_edge_for_nonexclusive", "C07", "transactron/core/manager.py",
     "if transaction1 is not transaction2 and not calls_nonexclusive(transaction1, transaction2, method):",
     "if transaction1 is not transaction2:"),
    ("c14_clear_then_write_wins", "C14", "transactron/lib/fifo.py",
     "            allocator.clear(m)\n", "            with m.If(~self.write.run):\n                allocator.clear(m)\n"),
    ("c15_clear_keeps_read_idx", "C15", "transactron/lib/fifo.py",
     "            m.d.sync += read_idx.eq(0)\n", "            pass\n"),
    ("c17_pipe_write_ready", "C17", "transactron/lib/connectors.py", None, None),
    ("c40_arrayproxy_union", "C40", "transactron/utils/assign.py",
     "return set.intersection(*[set(cast(data.View, el).shape().members.keys()) for el in elems])",
     "return set.union(*[set(cast(data.View, el).shape().members.keys()) for el in elems])"),
]


def make_patch(name, rel, old, new):
    src = open(os.path.join("/repo", rel)).read()
    if src.count(old) != 1:
        return None, f"pattern matches {src.count(old)} times"
    dst = src.replace(old, new)
    diff = "".join(difflib.unified_diff(src.splitlines(True), dst.splitlines(True), "a/" + rel, "b/" + rel))
    p = os.path.join(HERE, "mutants", name + ".diff")
    open(p, "w").write(diff)
    return p, None


def main():
    want = set(sys.argv[1:])
    os.makedirs(os.path.join(HERE, "mutants"), exist_ok=True)
    for name, props, rel, old, new in M:
        if old is None or (want and name not in want):
            continue
        p, err = make_patch(name, rel, old, new)
        if err:
            line = f"{name} {props} PATCH-ERROR {err}"
        else:
            r = subprocess.run([os.path.join(HERE, "tools", "try_seed.sh"), p, props], capture_output=True, text=True)
            line = " | ".join(l.strip()[:160] for l in r.stdout.splitlines() if "conda" not in l)
        print(line, flush=True)
        open(os.path.join(HERE, "mutants", "results.txt"), "a").write(line + "\n")


if __name__ == "__main__":
    main()
