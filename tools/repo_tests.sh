#!/bin/bash
# usage: tools/repo_tests.sh [pytest args...]  -- runs the repository's tests on a scratch copy of /repo's *working tree*
# (so .hypothesis / caches are never written into /repo), removes the copy afterwards.
set -u
D=$(mktemp -d /tmp/repotest.XXXXXX)
rsync -a --exclude .git /repo/ "$D"/
cd "$D" && PYTHONPATH="$D" /venv/bin/python -m pytest -q -p no:cacheprovider --timeout=900 "$@"
RC=$?
cd /; rm -rf "$D"
exit $RC
