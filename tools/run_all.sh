#!/bin/bash
# usage: tools/run_all.sh <tier> [ids...]  -- runs the checks one after the other, prints one summary line each
TIER=${1:-quick}; shift
IDS=${@:-$(python3 -c "import json;print(' '.join(c['property_id'] for c in json.load(open('$(dirname $0)/../MANIFEST.json'))['checks']))")}
for c in $IDS; do
  s=$(date +%s)
  out=$(python3 $(dirname $0)/../check.py $c --tier $TIER 2>&1); rc=$?
  echo "$c rc=$rc $(( $(date +%s) - s ))s $(echo "$out" | grep -E "^$c tier" | tail -1 | cut -c1-200)"
  if [ $rc -ne 0 ]; then echo "$out" | grep -E "VIOLATION|HARNESS|Error|error" | head -5 | cut -c1-300; fi
  echo "$out" | grep -E "^KNOWN-FINDING" | cut -c1-120
done
