#!/usr/bin/env python3
"""tools/seed_prompt.py <Cxx>  -- prints the brief given to an independent sub-agent that is asked to break one
property in its own scratch worktree (/tmp/seed/<Cxx>).  The brief contains the property text only, nothing from /verif."""
import json, os, sys
HERE = os.path.dirname(os.path.dirname(os.path.abspath(__file__)))
pid = sys.argv[1]
p = next(json.loads(l) for l in open(os.path.join(HERE, "properties.jsonl")) if json.loads(l)["id"] == pid)
d = f"/tmp/seed/{sys.argv[2] if len(sys.argv) > 2 else pid}"
if len(sys.argv) > 3:       # second round: ask for changes of a different kind than the ones other people already produced
    print("(Other engineers already produced these changes for the same property; yours must be of a DIFFERENT kind -- touch "
          "other code paths, other features of the library, other configurations:\n  " + sys.argv[3] + ")\n")
print(f"""You are working on a scratch git worktree of the open-source project kuznia-rdzeni/transactron (a Python library for
Amaranth HDL that elaborates Bluespec-style transactions/methods into hardware) located at {d}.
Work ONLY inside {d}. Never read or modify /repo or /verif (do not even list /verif).

Environment: no network. Use /venv/bin/python (amaranth, pytest, pytest-xdist installed). The package `transactron` is
installed in /venv as an editable install pointing elsewhere, so ALWAYS run python as
    cd {d} && PYTHONPATH={d} /venv/bin/python ...
and verify once with  `-c "import transactron; print(transactron.__file__)"`  that your worktree copy is the one imported.
Run tests as   cd {d} && PYTHONPATH={d} /venv/bin/python -m pytest -q -p no:cacheprovider -n 4 --timeout=900 <test files>
(the whole suite under test/ takes ~15-25 min with -n 4; test/lib/test_storage.py is the slowest).
Ignore any "conda" warning lines printed by the shell.
NEVER use `git stash`: the stash is shared by all worktrees of this repository and other people work in sibling worktrees.
To toggle a change use  git diff > x.diff; git checkout -- .; git apply x.diff  (or git apply -R).
The machine is shared and loaded: hypothesis DeadlineExceeded/Flaky/FailedHealthCheck failures in test_utils.py, test_stack.py,
test_storage.py::TestContentAddressableMemory and test_input_generation.py are known load flakes that also fail on the clean
tree (re-run such tests alone with --hypothesis-profile=ci to confirm).

The library is supposed to satisfy this semantic property:

  title: {p['title']}
  statement: {p['statement']}
  quantified over: {p['quantifier']['text']}
  relevant files: {', '.join(p['anchors']['files'])}
  relevant mechanisms: {'; '.join(m['name'] + ' (' + m['where'] + ')' for m in p['anchors']['mechanism'])}

Your task: produce TWO different, independent, realistic changes to the library source (files under transactron/, never the
tests) each of which BREAKS this property while the code still imports/compiles and the project's existing test suite
still passes. Think of plausible maintainer slips: an off-by-one, a wrong operand, a condition dropped in a refactor, a
register updated in the wrong case, stale state, a wrong index/priority/order, a missing term. Prefer changes that need
something specific to manifest -- a particular interleaving of calls in one cycle, a multi-step sequence of operations,
an unusual configuration or input, a boundary (full/empty/wrap-around), or two cooperating sites that each look fine alone
-- NOT changes that ordinary use would expose at once (those make the existing tests fail anyway). Do not just delete a
feature or raise an exception. Each change should be small (a few lines).

For each change k in (1, 2) deliver in {d}/seed{'{k}'}/ :
  patch.diff   -- `git diff` of the library change only (must apply with `git apply` to a clean checkout of HEAD)
  demo.py      -- a small standalone program (may use transactron.testing helpers / amaranth simulator) that exits with
                  status 0 on the unchanged library and non-zero (assertion failure) with the change applied; it must be
                  deterministic and run in under a minute:  cd {d} && PYTHONPATH={d} /venv/bin/python seed{'{k}'}/demo.py
  NOTES.md     -- which clause of the property it breaks, what exactly is needed for it to manifest, and the exact test
                  commands you ran with the change applied and their pass/fail summary.
You MUST actually run, with each change applied (one at a time, on an otherwise clean tree), at least every test file that
exercises the module you touched, and preferably the whole suite (test/), and confirm they all pass; if a test fails, pick
a different change. Also confirm demo.py fails with the change and passes without it. Leave the worktree's tracked files
clean (git checkout -- .) when you finish; only the untracked seed1/ and seed2/ directories remain.
Final answer: a short summary of both changes, what each needs to manifest, and the test results.""")
