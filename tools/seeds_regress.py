#!/usr/bin/env python3
"""tools/seeds_regress.py [name...]  -- re-runs, for every seeded change under /verif/seeded, the checks that are recorded
as detecting it (meta.json "checks" with verdict DETECTED) against a scratch copy of /repo's current tree + the patch
(tools/try_seed.sh) and writes seeded/REGRESSION.txt.  A patch that no longer applies to the current tree (the same lines
were repaired by a fix: commit) is reported as STALE; seeded/<name>/patch_rebased.diff is used when present."""
import json, os, subprocess, sys, glob

HERE = os.path.dirname(os.path.dirname(os.path.abspath(__file__)))
want = set(sys.argv[1:])
rows = []
for mp in sorted(glob.glob(os.path.join(HERE, "seeded", "*", "meta.json"))):
    d = os.path.dirname(mp)
    name = os.path.basename(d)
    if want and name not in want:
        continue
    meta = json.load(open(mp))
    ch = meta.get("checks", {})
    props = list(ch) if isinstance(ch, list) else [p for p, c in ch.items() if c.get("verdict") == "DETECTED"]
    patch = os.path.join(d, "patch_rebased.diff")
    if not os.path.exists(patch):
        patch = os.path.join(d, "patch.diff")
    for p in props:
        r = subprocess.run([os.path.join(HERE, "tools", "try_seed.sh"), patch, p], capture_output=True, text=True)
        out = r.stdout
        v = "STALE(patch does not apply)" if "does not apply" in out else "DETECTED" if " DETECTED" in out else \
            "MISSED" if " MISSED" in out else "ERROR"
        rows.append(f"{name:10s} {p} {v}")
        print(rows[-1], flush=True)
if not want:
    open(os.path.join(HERE, "seeded", "REGRESSION.txt"), "w").write("\n".join(rows) + "\n")
