#!/bin/bash
# usage: tools/try_seed.sh <seeded-name|patch.diff> <Cxx>[,<Cyy>...] [tier]
# Runs the named checks against a private scratch copy of /repo's working tree with the seeded patch applied (the editable
# package is overridden through PYTHONPATH; evidence/replays go to a temp dir).  Never touches /repo or the agents' worktrees.
set -u
P="$1"; [ -f "$P" ] || P="/verif/seeded/$1/patch.diff"
PROPS="$2"; TIER="${3:-quick}"
D=$(mktemp -d /tmp/try.XXXXXX)
rsync -a --exclude .git --exclude .hypothesis /repo/ "$D/lib/"
( cd "$D/lib" && patch -p1 -s < "$P" ) || { echo "patch does not apply"; rm -rf "$D"; exit 3; }
for p in ${PROPS//,/ }; do
  mkdir -p "$D/out"
  PYTHONPATH="$D/lib" VERIF_OUT_DIR="$D/out" python3 /verif/check.py $p --tier $TIER > "$D/log" 2> "$D/err"; rc=$?
  case $rc in 0) v=MISSED;; 1) v=DETECTED;; *) v="HARNESS-ERROR($rc)";; esac
  echo "$(basename $(dirname $P)) $p $v  $(grep -m1 -A1 '^VIOLATION' "$D/log" | tail -1 | cut -c1-200)"
  [ $rc -ge 2 ] && tail -5 "$D/err"
done
rm -rf "$D"
