#!/bin/bash
# usage: tools/with_patch.sh <patch.diff> <command...>   -- applies patch to /repo, runs command, reverts
set -u
P=$(realpath "$1"); shift
if ! git -C /repo diff --quiet; then echo "/repo dirty" >&2; exit 3; fi
git -C /repo apply "$P" || { echo "patch does not apply" >&2; exit 3; }
"$@"; RC=$?
git -C /repo checkout -- . 
exit $RC
