"""Single-state (combinational) special case of E1: every valuation of the free inputs of a small real circuit is applied
through the hand-driven pysim engine and every output is compared with a reference function written from the documentation.

A *spec function*  f(**cfg) -> dict(inputs=[(name, Signal[, domain])], outs=[(name, value-like)], ref=callable,
                                   sub=[elaboratables]?, constraint=callable?)
builds the circuit with the real library.  ref(vals: tuple[int]) -> tuple of expected ints (None = unspecified output).
"""
from __future__ import annotations

import importlib
import itertools
import time
import traceback
import warnings

from amaranth import Module, Signal, Value, Elaboratable, Shape

from .tsx import Driver, HarnessError


class _Top(Elaboratable):
    def __init__(self, subs, assigns):
        self.subs = subs
        self.assigns = assigns

    def elaborate(self, platform):
        m = Module()
        for i, s in enumerate(self.subs):
            m.submodules[f"sub{i}"] = s
        for sig, expr in self.assigns:
            m.d.comb += sig.eq(expr)
        return m


def to_py(shape: Shape, raw: int) -> int:
    raw &= (1 << shape.width) - 1
    if shape.signed and shape.width and raw >> (shape.width - 1):
        raw -= 1 << shape.width
    return raw


class CombCircuit:
    def __init__(self, spec):
        self.spec = spec
        self.in_names, self.in_sigs, self.domains = [], [], []
        for item in spec["inputs"]:
            name, sig = item[0], item[1]
            sigv = Value.cast(sig)
            if not isinstance(sigv, Signal):
                raise HarnessError(f"input {name} is not a signal")
            self.in_names.append(name)
            self.in_sigs.append(sigv)
            if len(item) > 2 and item[2] is not None:
                self.domains.append(list(item[2]))
            else:
                sh = sigv.shape()
                if sh.signed:
                    self.domains.append(list(range(-(1 << (sh.width - 1)), 1 << (sh.width - 1))) if sh.width else [0])
                else:
                    self.domains.append(list(range(1 << sh.width)))
        self.out_names, assigns, self.out_sigs = [], [], []
        for name, expr in spec["outs"]:
            ev = Value.cast(expr)
            s = Signal(ev.shape(), name=f"o_{len(assigns)}")
            assigns.append((s, ev))
            self.out_names.append(name)
            self.out_sigs.append(s)
        self.out_shapes = [s.shape() for s in self.out_sigs]
        self.top = _Top(list(spec.get("sub", [])), assigns)
        with warnings.catch_warnings():
            warnings.simplefilter("ignore")
            self.drv = Driver(self.top, list(zip(self.in_names, self.in_sigs)), list(zip(self.out_names, self.out_sigs)))
        if self.drv.clocked or self.drv.mem_slots:   # undriven signals are constants, not state
            raise HarnessError("combinational spec has state: " + str(self.drv.state_names()))
        self.ref = spec["ref"]
        self.constraint = spec.get("constraint")

    def valuations(self):
        for vals in itertools.product(*self.domains):
            if self.constraint is None or self.constraint(vals):
                yield vals

    def eval(self, vals):
        raw = self.drv.apply(vals)
        return tuple(to_py(sh, r) for sh, r in zip(self.out_shapes, raw))

    def eval_public(self, vals):
        obs, _ = self.drv.public_replay([vals])
        return tuple(to_py(sh, r) for sh, r in zip(self.out_shapes, obs[0]))

    def compare(self, vals, got):
        exp = self.ref(vals)
        bad = []
        for name, g, e in zip(self.out_names, got, exp):
            if e is not None and g != e:
                bad.append(f"{name}: got {g} expected {e}")
        return bad


def build(module, func, cfg):
    f = getattr(importlib.import_module(module), func)
    from transactron.utils.dependencies import DependencyContext, DependencyManager
    with DependencyContext(DependencyManager()):
        return CombCircuit(f(**cfg))


def comb_job(module, func, cfg, replay_n=6):
    t0 = time.time()
    out = {"kind": "comb", "module": module, "func": func, "cfg": cfg, "evaluations": 0, "violating": 0, "violations": [],
           "error": None, "replayed": 0, "distinct_obs": 0, "samples": [], "raised": None}
    try:
        try:
            c = build(module, func, cfg)
        except HarnessError:
            raise
        except Exception as e:
            out["violations"].append({"clause": f"elaboration: {type(e).__name__} while building the circuit", "vals": [],
                                      "detail": traceback.format_exc()[-1200:]})
            out["violating"] = 1
            out["wall"] = time.time() - t0
            return out
        seen = set()
        n = 0
        keep = []
        for vals in c.valuations():
            got = c.eval(vals)
            n += 1
            seen.add(got)
            bad = c.compare(vals, got)
            if bad:
                out["violating"] += 1
                if len(out["violations"]) < 3:
                    out["violations"].append({"clause": bad[0], "vals": list(vals), "detail": {
                        "inputs": dict(zip(c.in_names, vals)), "outputs": dict(zip(c.out_names, got)), "all": bad}})
            if n <= 2 or (n & (n - 1)) == 0:
                keep.append((vals, got))
        out["evaluations"] = n
        out["distinct_obs"] = len(seen)
        # conformance: a spread of valuations re-evaluated through the public simulator API
        step = max(1, len(keep) // replay_n)
        for vals, got in keep[::step][:replay_n]:
            pub = c.eval_public(vals)
            if pub != got:
                raise HarnessError(f"public-API evaluation differs from explorer at {vals}: {pub} != {got}")
            out["replayed"] += 1
        if keep:
            vals, got = keep[-1]
            out["samples"] = [{"inputs": dict(zip(c.in_names, vals)), "outputs": dict(zip(c.out_names, got))}]
    except Exception:
        out["error"] = traceback.format_exc()
    out["wall"] = time.time() - t0
    return out


def COMB(module, func, cfg):
    return ("vlib.comb", "comb_job", {"module": module, "func": func, "cfg": cfg})


def add_comb(rep, results, where=None):
    """Aggregates comb_job results into a runner.Report (one state per circuit, one transition per valuation)."""
    for r in results:
        if r.get("error"):
            rep.errors.append(f"{r.get('func')} {r.get('cfg')}: {r['error']}")
            continue
        rep.states += 1
        rep.transitions += r["evaluations"]
        rep.evaluations += r["evaluations"]
        rep.replayed += r["replayed"]
        rep.bump("circuits")
        rep.bump("nt_distinct_outputs", r["distinct_obs"])
        rep.per_config.append({"circuit": r["func"], "cfg": r["cfg"], "valuations": r["evaluations"],
                               "distinct_outputs": r["distinct_obs"], "violating": r["violating"],
                               "wall_s": round(r["wall"], 2)})
        if r["samples"] and len(rep.samples) < 6:
            rep.samples.append({"circuit": r["func"], "cfg": r["cfg"], **r["samples"][0]})
        for v in r["violations"][:1]:
            rep.violation(where=where or r["func"], cfg=r["cfg"], clause=v["clause"], path=v["vals"],
                          detail={"detail": v["detail"], "violating_valuations": r["violating"]},
                          replay={"kind": "comb", "module": "vlib.comb", "spec_module": r["module"], "func": r["func"],
                                  "cfg": r["cfg"], "vals": v["vals"]})


def replay(rp):
    """replay.py entry: True when the violation does NOT reproduce."""
    try:
        c = build(rp["spec_module"], rp["func"], rp["cfg"])
    except HarnessError:
        raise
    except Exception as e:
        print(f"  building the circuit raises {type(e).__name__}: {e}")
        return False
    vals = tuple(rp["vals"])
    got = c.eval_public(vals)
    bad = c.compare(vals, got)
    print("  inputs:", dict(zip(c.in_names, vals)))
    print("  outputs:", dict(zip(c.out_names, got)))
    for b in bad:
        print("  ", b)
    return not bad
