"""E2 -- a small design language for Transactron programs: parser, builder (real library objects),
static reference analysis (call chains, conflicts, priorities, well-formedness) and the dynamic
reference interpreter.  The reference is written from the property statements / docs, not from
manager.py; it only takes the scheduler's decision (which transactions run) from the circuit.

Design (JSON-able):
  {"mods": [[stmt...], ...], "rels": [[kind, a, b, prio], ...], "sched": "eager"|"rr"}
stmt:
  ["call", callee, en, arg]          en: "1"|"in"      arg: "in"|0|1|None
  ["if", [[stmt...], ...], has_else] every non-else branch gets a fresh 1-bit condition input
  ["sw", width, [[value, [stmt...]], ...], default|None]
  ["fsm", [[[stmt...], next_state, adv], ...]]      adv: "1"|"in"
  ["def", body]
  ["asg", dom]                        dom: comb|sync|av_comb|top_comb   (writes a fresh witness)
  ["alias", name, target]             Method(name).provide(target)
body: {"n": name, "k": "t"|"m", "rdy": "in"|"1", "nx": bool, "sc": bool, "i": 0|1,
       "o": None|"notarg"|"in", "val": bool, "st": [stmt...]}
rels: ["conf", a, b, "U"|"L"|"R"] | ["before", a, b, None] | ["before_rd", a, b, None]
"""
from __future__ import annotations

import itertools

from amaranth import C, Cat, Elaboratable, Module, Signal

from transactron import Method, TModule, Transaction
from transactron.core.transaction_base import Priority


class Obj:
    def __init__(self, **kw):
        self.__dict__.update(kw)

    def __repr__(self):
        return f"Obj({self.__dict__})"


# ---------------------------------------------------------------------------------------------
# parsing: syntax tree -> bodies, call sites, assignments, structures, inputs


def parse(design):
    info = Obj(design=design, bodies={}, order=[], sites=[], assigns=[], structs={}, inputs=[], aliases={},
               fsms=[], nmods=len(design["mods"]))
    sid = itertools.count()

    def add_input(name, width=1):
        info.inputs.append((name, width))
        return name

    def walk(mod, stmts, path, cur):
        for st in stmts:
            kind = st[0]
            if kind == "call":
                k = len(info.sites)
                s = Obj(id=k, body=cur, callee=st[1], en=st[2], arg=st[3], mod=mod,
                        path=path + (("site", k),))
                if s.en == "in":
                    s.en_in = add_input(f"e{k}")
                if s.arg == "in":
                    s.arg_in = add_input(f"a{k}")
                info.sites.append(s)
            elif kind == "if":
                i = next(sid)
                branches, has_else = st[1], st[2]
                conds = []
                for b, sub in enumerate(branches):
                    is_else = has_else and b == len(branches) - 1
                    if not is_else:
                        # design["cw"]: width of If/Elif conditions (a multi-bit condition holds when non-zero)
                        conds.append(add_input(f"c{i}_{b}", design.get("cw", 1)))
                info.structs[i] = Obj(kind="if", conds=conds, has_else=has_else, n=len(branches))
                for b, sub in enumerate(branches):
                    walk(mod, sub, path + (("alt", i, b),), cur)
            elif kind == "sw":
                i = next(sid)
                width, cases, default = st[1], st[2], st[3]
                sel = add_input(f"s{i}", width)
                info.structs[i] = Obj(kind="sw", sel=sel, values=[c[0] for c in cases], has_default=default is not None)
                for b, (val, sub) in enumerate(cases):
                    walk(mod, sub, path + (("alt", i, b),), cur)
                if default is not None:
                    walk(mod, default, path + (("alt", i, len(cases)),), cur)
            elif kind == "fsm":
                i = next(sid)
                states = st[1]
                advs = []
                for b, (sub, nxt, adv) in enumerate(states):
                    advs.append(add_input(f"f{i}_{b}") if adv == "in" else None)
                info.structs[i] = Obj(kind="fsm", n=len(states), nexts=[s[1] for s in states], advs=advs,
                                      fsm_index=len(info.fsms))
                info.fsms.append(i)
                for b, (sub, nxt, adv) in enumerate(states):
                    walk(mod, sub, path + (("alt", i, b),), cur)
            elif kind == "def":
                b = st[1]
                name = b["n"]
                body = Obj(name=name, kind=b["k"], rdy=b.get("rdy", "1"), nx=b.get("nx", False), sc=b.get("sc", False),
                           i=b.get("i", 0), o=b.get("o"), val=b.get("val", False), parent=cur, mod=mod,
                           defpath=path, order=len(info.order))
                body.rdy_run = None
                if isinstance(body.rdy, str) and body.rdy.startswith("or_run:"):
                    body.rdy_run = body.rdy.split(":", 1)[1]     # ready = input | run of another body
                    body.rdy = "in"
                if body.rdy == "in":
                    body.rdy_in = add_input(f"r_{name}")
                if body.o == "in":
                    body.out_in = add_input(f"o_{name}")
                info.bodies[name] = body
                info.order.append(name)
                walk(mod, b["st"], path + (("body", name),), name)
            elif kind == "asg":
                k = len(info.assigns)
                info.assigns.append(Obj(id=k, dom=st[1], body=cur, mod=mod, path=path))
            elif kind == "alias":
                info.aliases[st[1]] = st[2]
            else:
                raise ValueError(kind)

    for mi, stmts in enumerate(design["mods"]):
        walk(mi, stmts, (("mod", mi),), None)
    return info


def resolve(info, name):
    while name in info.aliases:
        name = info.aliases[name]
    return name


# ---------------------------------------------------------------------------------------------
# builder: the real thing


class DesignElab(Elaboratable):
    def __init__(self, design, info=None):
        self.design = design
        self.info = info or parse(design)
        info = self.info
        self.methods = {}
        self.callobj = {}       # design["plural"]: calls go through a one-element `Methods` collection (Methods.__call__)
        for name, b in info.bodies.items():
            if b.kind == "m":
                if design.get("plural"):
                    from transactron.core.method import Methods
                    ms = Methods(1, name=name, i=[("a", 1)] if b.i else [], o=[("o", 1)] if b.o else [])
                    self.methods[name], self.callobj[name] = ms[0], ms
                    continue
                self.methods[name] = Method(name=name, i=[("a", 1)] if b.i else [], o=[("o", 1)] if b.o else [])
        for name, target in info.aliases.items():
            t = info.bodies[resolve(info, target)]
            self.methods[name] = Method(name=name, i=[("a", 1)] if t.i else [], o=[("o", 1)] if t.o else [])
        self.inp = {name: Signal(w, name=name) for name, w in info.inputs}
        self.transactions = {}
        self.site_wit = [Signal(name=f"w{s.id}") for s in info.sites]
        self.site_res = [None] * len(info.sites)
        self.asg_wit = [Signal(name=f"g{a.id}") for a in info.assigns]
        self.fsm_objs = {}

    def elaborate(self, platform):
        info = self.info
        top = Module()
        sid = itertools.count()
        site_k = itertools.count()
        asg_k = itertools.count()

        def emit(m, stmts):
            for st in stmts:
                kind = st[0]
                if kind == "call":
                    k = next(site_k)
                    s = info.sites[k]
                    meth = self.methods[s.callee]
                    en = self.inp[s.en_in] if s.en == "in" else (C(0) if s.en == "0" else C(1))   # "0": constant-false enable
                    kw = {}
                    if len(meth.data_in.as_value()):
                        kw["a"] = self.inp[s.arg_in] if s.arg == "in" else C(int(s.arg or 0), 1)
                    res = self.callobj.get(s.callee, meth)(m, enable_call=en, **kw)
                    m.d.comb += self.site_wit[k].eq(1)
                    if len(meth.data_out.as_value()):
                        r = Signal(name=f"res{k}")
                        m.d.top_comb += r.eq(res.o)
                        self.site_res[k] = r
                elif kind == "if":
                    i = next(sid)
                    stc = info.structs[i]
                    for b, sub in enumerate(st[1]):
                        if stc.has_else and b == stc.n - 1:
                            ctx = m.Else()
                        elif b == 0:
                            ctx = m.If(self.inp[stc.conds[b]])
                        else:
                            ctx = m.Elif(self.inp[stc.conds[b]])
                        with ctx:
                            emit(m, sub)
                elif kind == "sw":
                    i = next(sid)
                    stc = info.structs[i]
                    with m.Switch(self.inp[stc.sel]):
                        for val, sub in st[2]:
                            with m.Case(val):
                                emit(m, sub)
                        if st[3] is not None:
                            with m.Default():
                                emit(m, st[3])
                elif kind == "fsm":
                    i = next(sid)
                    stc = info.structs[i]
                    with m.FSM(name=f"fsm{i}") as fsm:
                        self.fsm_objs[i] = fsm
                        for b, (sub, nxt, adv) in enumerate(st[1]):
                            with m.State(f"S{b}"):
                                emit(m, sub)
                                if adv == "in":
                                    with m.If(self.inp[stc.advs[b]]):
                                        m.next = f"S{nxt}"
                                else:
                                    m.next = f"S{nxt}"
                elif kind == "def":
                    b = info.bodies[st[1]["n"]]
                    rdy = self.inp[b.rdy_in] if b.rdy == "in" else C(1)
                    if b.rdy_run is not None:
                        rdy = rdy | self.methods[b.rdy_run].run
                    if b.kind == "t":
                        tr = Transaction(name=b.name)
                        self.transactions[b.name] = tr
                        with tr.body(m, ready=rdy):
                            emit(m, st[1]["st"])
                    else:
                        meth = self.methods[b.name]
                        # flags are passed explicitly in both polarities: "nonexclusive=False" must mean exclusive
                        kw = {"nonexclusive": bool(b.nx)}
                        if b.nx:
                            if b.i:
                                # user combiner, deliberately NOT the identity for a single active call and sensitive to
                                # every active call: parity of the active calls whose argument is 0
                                kw["combiner"] = lambda mm, args, runs: {
                                    "a": Cat(~args[j].a & runs[j] for j in range(len(args))).xor()}
                        kw["single_caller"] = bool(b.sc)
                        if b.val:
                            kw["validate_arguments"] = lambda a: a == 1
                        out = Signal(meth.layout_out, name=f"out_{b.name}")
                        with meth.body(m, ready=rdy, out=out, **kw) as arg:
                            if b.o == "notarg":
                                m.d.top_comb += out.o.eq(~arg.a if b.i else 1)
                            elif b.o == "in":
                                m.d.top_comb += out.o.eq(self.inp[b.out_in])
                            emit(m, st[1]["st"])
                elif kind == "asg":
                    k = next(asg_k)
                    a = info.assigns[k]
                    w = self.asg_wit[k]
                    if a.dom == "sync":
                        m.d.sync += w.eq(~w)
                    else:
                        m.d[a.dom] += w.eq(1)
                elif kind == "alias":
                    self.methods[st[1]].provide(self.methods[st[2]])

        for mi, stmts in enumerate(self.design["mods"]):
            m = TModule()
            emit(m, stmts)
            top.submodules[f"mod{mi}"] = m

        def obj(name):
            return self.transactions[name] if name in self.transactions else self.methods[name]

        for kind, a, b, prio in self.design.get("rels", []):
            if kind == "conf":
                obj(a).add_conflict(obj(b), {"U": Priority.UNDEFINED, "L": Priority.LEFT, "R": Priority.RIGHT}[prio])
            elif kind == "before":
                obj(a).schedule_before(obj(b))
            elif kind == "before_rd":
                obj(a).schedule_before(obj(b), ready_dependent=True)
            elif kind == "sim":
                obj(a).simultaneous(obj(b))
        return top

    def handles(self):
        """(inputs, observed) for tsx.Driver; to be called after elaboration."""
        info = self.info
        inputs = [(n, self.inp[n]) for n, _ in info.inputs]
        obs = []
        for name in info.order:
            b = info.bodies[name]
            if b.kind == "t":
                t = self.transactions[name]
                obs += [(f"run:{name}", t.run), (f"rdy:{name}", t.ready)]
            else:
                mt = self.methods[name]
                obs += [(f"run:{name}", mt.run), (f"rdy:{name}", mt.ready)]
                if b.i:
                    obs.append((f"din:{name}", mt.data_in.as_value()))
                if b.o:
                    obs.append((f"dout:{name}", mt.data_out.as_value()))
        for name in info.aliases:
            mt = self.methods[name]
            obs += [(f"run:{name}", mt.run), (f"rdy:{name}", mt.ready)]
            if len(mt.data_in.as_value()):
                obs.append((f"din:{name}", mt.data_in.as_value()))
            if len(mt.data_out.as_value()):
                obs.append((f"dout:{name}", mt.data_out.as_value()))
        for s in info.sites:
            obs.append((f"w{s.id}", self.site_wit[s.id]))
            if self.site_res[s.id] is not None:
                obs.append((f"res{s.id}", self.site_res[s.id]))
        for a in info.assigns:
            obs.append((f"g{a.id}", self.asg_wit[a.id]))
        for i in info.fsms:
            obs.append((f"fsm{i}", self.fsm_objs[i].state))
        return inputs, obs


# ---------------------------------------------------------------------------------------------
# static reference analysis


def ctrl_excl(p, q):
    """Two syntactic paths are control-exclusive iff they first differ at one control structure,
    in different alternatives of it (same module is implied by the shared ("mod", i) prefix)."""
    for a, b in zip(p, q):
        if a == b:
            continue
        return a[0] == "alt" and b[0] == "alt" and a[1] == b[1] and a[2] != b[2]
    return False


class Static:
    def __init__(self, info):
        self.info = info
        B = info.bodies
        self.sites_of = {n: [] for n in B}
        for s in info.sites:
            s.target = resolve(info, s.callee)
            self.sites_of[s.body].append(s)
        self.trans = [n for n in info.order if B[n].kind == "t"]
        self.meths = [n for n in info.order if B[n].kind == "m"]
        self.reasons = []
        # recursion
        self.recursive = False
        self.chains = {}
        for r in info.order:
            self.chains[r] = self._chains(r)
        if self.recursive:
            self.reasons.append("recursion")
        self.calltree = {r: sorted({c[-1].target for c in self.chains[r]}) for r in info.order}
        # double calls
        self.double = []
        if not self.recursive:
            for r in info.order:
                cs = self.chains[r]
                for i in range(len(cs)):
                    for j in range(i + 1, len(cs)):
                        c, d = cs[i], cs[j]
                        if c[-1].target != d[-1].target or B[c[-1].target].nx:
                            continue
                        k = next((k for k in range(min(len(c), len(d))) if c[k].id != d[k].id), None)
                        if k is None:
                            continue
                        if not ctrl_excl(c[k].path, d[k].path):
                            self.double.append((r, c[-1].target))
            if self.double:
                self.reasons.append("double_call")
        # readiness dependencies: nesting + before_rd
        self.readydeps = {n: set() for n in B}
        for n, b in B.items():
            if b.parent is not None:
                self.readydeps[n].add(b.parent)
        self.rels = [list(r) for r in info.design.get("rels", [])]
        for kind, a, b, prio in self.rels:
            if kind == "before_rd":
                self.readydeps[resolve(info, b)].add(resolve(info, a))
        self.ok = not self.recursive
        if self.recursive:
            return
        # transactions reaching a body
        self.trans_for = {}
        for n in B:
            if B[n].kind == "t":
                self.trans_for[n] = [n]
            else:
                self.trans_for[n] = [t for t in self.trans if n in self.calltree[t]]
        # implicit conflicts
        self.conf = {t: set() for t in self.trans}
        self.conf_why = {}
        for i, t1 in enumerate(self.trans):
            for t2 in self.trans[i + 1:]:
                if self._implicit(t1, t2):
                    self.conf[t1].add(t2)
                    self.conf[t2].add(t1)
                    self.conf_why[(t1, t2)] = "implicit"
        # explicit conflicts, priorities
        self.self_conflict = []     # C02: one transaction reaching both ends of an add_conflict
        self.prio = set()           # (hi, lo) : hi is scheduled before lo
        self.prio_src = {}
        self.explicit_pairs = []    # (a, b) bodies related by add_conflict
        for kind, a, b, prio in self.rels:
            a, b = resolve(info, a), resolve(info, b)
            if kind == "conf":
                self.explicit_pairs.append((a, b))
            for ta in self.trans_for[a]:
                for tb in self.trans_for[b]:
                    if kind == "conf":
                        if ta == tb:
                            self.self_conflict.append((ta, a, b))
                        elif not self._def_exclusive(ta, tb):
                            self.conf[ta].add(tb)
                            self.conf[tb].add(ta)
                            self.conf_why.setdefault((min(ta, tb), max(ta, tb)), "explicit")
                        if prio == "L":
                            self.prio.add((ta, tb))
                            self.prio_src[(ta, tb)] = "conf"
                        elif prio == "R":
                            self.prio.add((tb, ta))
                            self.prio_src[(tb, ta)] = "conf"
                    elif kind in ("before", "before_rd"):
                        self.prio.add((ta, tb))
                        self.prio_src.setdefault((ta, tb), "before")
        for n, b in B.items():
            if b.parent is not None:
                for ta in self.trans_for[b.parent]:
                    for tb in self.trans_for[n]:
                        self.prio.add((ta, tb))
                        self.prio_src.setdefault((ta, tb), "nest")
        # priority cycles (length-1 cycles included)
        self.prio_cyclic = self._cyclic()
        if self.prio_cyclic:
            self.reasons.append("priority_cycle")
        # single_caller: called from two transactions (statement); library: more than one call site
        def live_callers(m):
            return {s.body for s in info.sites if s.target == m and (B[s.body].kind == "t" or self.trans_for[s.body])}

        self.single_two_trans = [m for m in self.meths if B[m].sc and len(live_callers(m)) > 1]
        self.single_two_sites = [m for m in self.meths if B[m].sc and self.trans_for[m]
                                 and sum(1 for s in info.sites if s.target == m and (
                                     B[s.body].kind == "t" or self.trans_for[s.body])) > 1]
        if self.single_two_trans:
            self.reasons.append("single_caller")
        # ready-dependent on a conflicting transaction
        self.dep_conflict = [(t, d) for t in self.trans for d in self.readydeps[t] if d in self.conf[t]]
        if self.dep_conflict:
            self.reasons.append("ready_dependent_on_conflicting")
        # schedule_before source must be defined before its target
        self.order_bad = [(a, b) for kind, a, b, prio in self.rels if kind in ("before", "before_rd")
                          and self._live(resolve(info, a)) and self._live(resolve(info, b))
                          and B[resolve(info, b)].order < B[resolve(info, a)].order]
        if self.order_bad:
            self.reasons.append("scheduled_before_but_defined_after")
        self.well_formed = not self.reasons

    def _live(self, n):
        """relations whose end is an uncalled method are pruned by the library; a relation can only matter
        when both bodies take part in scheduling"""
        return True

    def _chains(self, root):
        out = []

        def rec(body, prefix, seen):
            for s in self.sites_of[body]:
                if s.target in seen or s.target == root and self.info.bodies[root].kind == "m":
                    self.recursive = True
                    continue
                c = prefix + (s,)
                out.append(c)
                rec(s.target, c, seen | {s.target})

        rec(root, (), frozenset())
        return out

    def _implicit(self, t1, t2):
        B = self.info.bodies
        for c in self.chains[t1]:
            y = c[-1].target
            if B[y].nx:
                continue
            for d in self.chains[t2]:
                if d[-1].target != y:
                    continue
                if c[-1].body == d[-1].body:
                    continue      # the chains join above y (a shared caller), decided at that method
                if not ctrl_excl(c[0].path, d[0].path):
                    return True
        return False

    def _def_exclusive(self, t1, t2):
        B = self.info.bodies
        g1 = [t1] + self.calltree[t1]
        g2 = [t2] + self.calltree[t2]
        for a in g1:
            for b in g2:
                pa = B[a].defpath + (("body", a),)
                pb = B[b].defpath + (("body", b),)
                if ctrl_excl(pa, pb):
                    return True
        return False

    def _cyclic(self):
        if any(a == b for a, b in self.prio):
            return True
        adj = {}
        for a, b in self.prio:
            adj.setdefault(a, set()).add(b)
        color = {}

        def dfs(u):
            color[u] = 1
            for v in adj.get(u, ()):
                if color.get(v) == 1:
                    return True
                if v not in color and dfs(v):
                    return True
            color[u] = 2
            return False

        return any(u not in color and dfs(u) for u in list(adj))

    def components(self):
        """connected components of the reference conflict graph"""
        comp, seen = [], set()
        for t in self.trans:
            if t in seen:
                continue
            stack, cc = [t], []
            seen.add(t)
            while stack:
                u = stack.pop()
                cc.append(u)
                for v in self.conf[u]:
                    if v not in seen:
                        seen.add(v)
                        stack.append(v)
            comp.append(sorted(cc))
        return comp


# ---------------------------------------------------------------------------------------------
# dynamic reference


class Oracle:
    """Evaluates one (valuation, observation) pair of a well-formed design.  check() returns a list of
    (property, clause) violations and updates non-triviality counters."""

    def __init__(self, info, static, sched="eager"):
        self.info = info
        self.st = static
        self.sched = sched
        self.counters = {}
        B = info.bodies
        # evaluation order for methods: callers first (chains are finite)
        self.topo = []
        seen = set()

        def visit(n):
            if n in seen:
                return
            seen.add(n)
            for s in info.sites:
                if s.target == n:
                    visit(s.body)
            self.topo.append(n)

        for n in info.order:
            visit(n)

    def count(self, k, n=1):
        self.counters[k] = self.counters.get(k, 0) + n

    # condition of one path element under a valuation
    def _alt(self, I, O, sid, alt):
        stc = self.info.structs[sid]
        if stc.kind == "if":
            nconds = len(stc.conds)
            if alt < nconds:
                return bool(I[stc.conds[alt]]) and not any(I[c] for c in stc.conds[:alt])
            return not any(I[c] for c in stc.conds)
        if stc.kind == "sw":
            v = I[stc.sel]
            if alt < len(stc.values):
                return v == stc.values[alt] and v not in stc.values[:alt]
            return v not in stc.values
        return O[f"fsm{sid}"] == alt

    def pathcond(self, I, O, path, runs=None):
        """ordinary conditions on a path; with runs given, enclosing bodies must run too"""
        for e in path:
            if e[0] == "alt":
                if not self._alt(I, O, e[1], e[2]):
                    return False
            elif e[0] == "body" and runs is not None:
                if not runs[e[1]]:
                    return False
        return True

    def check(self, I, O):
        info, st = self.info, self.st
        B = info.bodies
        V = []
        # ---- runs: transactions observed, methods derived from active call sites
        runs = {t: bool(O[f"run:{t}"]) for t in st.trans}
        active = {}
        for n in self.topo:
            if B[n].kind == "m":
                r = False
                for s in info.sites:
                    if s.target == n:
                        a = runs[s.body] and self.pathcond(I, O, s.path) and bool(I[s.en_in] if s.en == "in" else s.en != "0")
                        active[s.id] = a
                        r = r or a
                runs[n] = r
        for s in info.sites:
            if s.id not in active:
                active[s.id] = runs[s.body] and self.pathcond(I, O, s.path) and bool(I[s.en_in] if s.en == "in" else s.en != "0")
        # ---- readiness of every body: own ready input and the conditions around its definition
        ready = {}
        for n, b in B.items():
            r = bool(I[b.rdy_in] if b.rdy == "in" else 1)
            if b.rdy_run is not None:
                r = r or runs[b.rdy_run]
            ready[n] = r and self.pathcond(I, O, b.defpath)
            if bool(O[f"rdy:{n}"]) != ready[n]:
                V.append(("C03", f"ready.signal: {n}.ready={O[f'rdy:{n}']} expected {int(ready[n])}"))
        # ---- C01: at most one active call per exclusive method; conflicting transactions never together
        for m in st.meths:
            act = [s for s in info.sites if s.target == m and active[s.id]]
            if not B[m].nx and len(act) > 1:
                V.append(("C01", f"exclusive.multi_call: method {m} has {len(act)} active call sites {[s.id for s in act]}"))
            if len(act) > 1:
                self.count("nt_multi_active_nonexclusive")
        for t1 in st.trans:
            for t2 in st.conf[t1]:
                if t1 < t2 and runs[t1] and runs[t2]:
                    why = st.conf_why.get((t1, t2), "?")
                    V.append(("C01" if why == "implicit" else "C02",
                              f"conflict.both_run: {t1} and {t2} ({why} conflict) run together"))
        # ---- C02: explicitly conflicting bodies never run together (whoever calls them)
        for a, b in st.explicit_pairs:
            if runs[a] and runs[b]:
                V.append(("C02", f"add_conflict.both_run: {a} and {b} are related by add_conflict and both run"))
        # ---- witnesses of call sites (comb domain inside the caller)
        for s in info.sites:
            expw = runs[s.body] and self.pathcond(I, O, s.path)
            if bool(O[f"w{s.id}"]) != expw:
                V.append(("C06", f"comb.witness: call site {s.id} in {s.body}: witness={O[f'w{s.id}']} expected {int(expw)}"))
        # ---- C04: observed method run == some call site active; nested bodies only with their parent
        for m in st.meths:
            if bool(O[f"run:{m}"]) != runs[m]:
                V.append(("C04", f"method.run: {m}.run={O[f'run:{m}']} but reference says {int(runs[m])}"))
        for al in info.aliases:
            tgt = resolve(info, al)
            if bool(O[f"run:{al}"]) != runs[tgt]:
                V.append(("C04", f"alias.run: {al}.run={O[f'run:{al}']} but {tgt} runs={int(runs[tgt])}"))
        for n, b in B.items():
            if b.parent is not None and runs[n] and not runs[b.parent]:
                V.append(("C04", f"nested.run: {n} runs while its enclosing body {b.parent} does not"))
        # ---- C05: argument and result routing
        for m in st.meths:
            b = B[m]
            act = [s for s in info.sites if s.target == m and active[s.id]]
            if b.i and runs[m]:
                args = [int(I[s.arg_in]) if s.arg == "in" else int(s.arg or 0) for s in act]
                exp = args[0] if not b.nx else sum(1 - a for a in args) % 2
                if (b.nx or len(act) == 1) and O[f"din:{m}"] != exp:
                    V.append(("C05", f"arg.routing: {m}.data_in={O[f'din:{m}']} expected {exp} from sites {[s.id for s in act]}"))
                if len(act) > 1:
                    self.count("nt_combiner_multi")
            if b.o:
                dout = O[f"dout:{m}"]
                if b.o == "in":
                    expo = int(I[b.out_in])
                elif b.i:
                    expo = 1 - O[f"din:{m}"]
                else:
                    expo = 1
                if dout != expo:
                    V.append(("C05", f"result.value: {m}.data_out={dout} expected {expo}"))
                for s in act:
                    if O[f"res{s.id}"] != dout:
                        V.append(("C05", f"result.routing: call site {s.id} sees {O[f'res{s.id}']} but {m} returns {dout}"))
        for al in info.aliases:
            tgt = resolve(info, al)
            if B[tgt].o and O[f"dout:{al}"] != O[f"dout:{tgt}"]:
                V.append(("C05", f"alias.result: {al}.data_out differs from {tgt}.data_out"))
            if B[tgt].i and runs[tgt] and O[f"din:{al}"] != O[f"din:{tgt}"]:
                V.append(("C05", f"alias.arg: {al}.data_in differs from {tgt}.data_in"))
        # ---- C06: assignment witnesses
        for a in info.assigns:
            g = O[f"g{a.id}"]
            if a.dom == "top_comb":
                exp = True
            elif a.dom == "av_comb":
                exp = self.pathcond(I, O, a.path)
            else:
                exp = self.pathcond(I, O, a.path, runs)
            if a.dom != "sync":
                if bool(g) != exp:
                    V.append(("C06", f"{a.dom}.witness: assignment {a.id} in {a.body}: {g} expected {int(exp)}"))
            a.exp_toggle = exp
        # ---- fully enabled
        enabled = {}
        for t in st.trans:
            en = ready[t]
            why = None if en else "own_ready"
            if en:
                for m in st.calltree[t]:
                    if not ready[m]:
                        en, why = False, "callee_ready"
                        break
            if en:
                for c in st.chains[t]:
                    y = c[-1].target
                    if B[y].val:
                        on = all(self.pathcond(I, O, s.path) and bool(I[s.en_in] if s.en == "in" else s.en != "0") for s in c)
                        if on:
                            s = c[-1]
                            arg = int(I[s.arg_in]) if s.arg == "in" else int(s.arg or 0)
                            if arg != 1:
                                en, why = False, "validator"
                                break
            if en:
                for n in [t] + st.calltree[t]:
                    for d in st.readydeps[n]:
                        if not runs[d]:
                            en, why = False, "ready_dependency"
                            break
                    if not en:
                        break
            enabled[t] = en
            if runs[t] and not en:
                V.append(("C03", f"run.not_enabled: {t} runs but is not fully enabled ({why})"))
            if not en and why != "own_ready" and ready[t]:
                self.count(f"nt_blocked_by_{why}")
        # ---- C07 (eager only): enabled but not running => a conflicting transaction runs
        if self.sched == "eager":
            for t in st.trans:
                if enabled[t] and not runs[t]:
                    blockers = [u for u in st.conf[t] if runs[u]]
                    if not blockers:
                        V.append(("C07", f"wasted: {t} is fully enabled, does not run, and no conflicting transaction runs"))
                    else:
                        self.count("nt_blocked_by_conflict")
            # ---- C08: priorities
            for hi, lo in st.prio:
                if st.prio_src.get((hi, lo)) != "conf" or hi == lo:
                    continue
                if enabled[hi] and enabled[lo]:
                    self.count("nt_prio_both_enabled")
                    if runs[lo] and lo in st.conf[hi]:
                        if runs[hi]:
                            pass  # reported as conflict.both_run
                        elif not any(runs[u] for u in st.conf[hi] if u != lo):
                            V.append(("C08", f"priority: {lo} runs although higher-priority {hi} is enabled and not "
                                             f"blocked by anything else"))
        n_en = sum(1 for t in st.trans if enabled[t])
        if n_en >= 2:
            self.count("nt_two_enabled")
        for t1 in st.trans:
            for t2 in st.conf[t1]:
                if t1 < t2 and enabled[t1] and enabled[t2]:
                    self.count("nt_conflicting_both_enabled")
        self.last = Obj(runs=runs, enabled=enabled, ready=ready, active=active)
        return V
