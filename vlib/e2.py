"""E2 driver: builds DSL designs with the real library, explores them with tsx and evaluates the
reference oracle of vlib.dsl on every (state, valuation)."""
from __future__ import annotations

import itertools
import json
import time
import traceback
import warnings

from transactron.core.context import TransactronContextElaboratable
from transactron.core.manager import TransactionManager
from transactron.core.schedulers import eager_deterministic_cc_scheduler, trivial_roundrobin_cc_scheduler
from transactron.utils.dependencies import DependencyContext, DependencyManager

from . import dsl, tsx


class Rejected(Exception):
    pass


class DesignH:
    """tsx model + builder for one DSL design."""

    def __init__(self, design, props=None, max_inputs_bits=14):
        self.design = design
        self.props = set(props) if props else None
        self.info = dsl.parse(design)
        self.static = dsl.Static(self.info)
        self.sched = design.get("sched", "eager")
        self.oracle = dsl.Oracle(self.info, self.static, self.sched) if self.static.ok else None
        self.counters = self.oracle.counters if self.oracle else {}
        self.nbits = sum(w for _, w in self.info.inputs)
        self.sync_ids = [a.id for a in self.info.assigns if a.dom == "sync"]
        self.rr_monitor = self.sched == "rr" and self.props is not None and "C09" in self.props and self.static.ok
        if self.rr_monitor:
            self.comps = self.static.components()
            self.comp_of = {t: c for c in self.comps for t in c}

    def _construct(self):
        dm = DependencyManager()
        with DependencyContext(dm):
            elab = dsl.DesignElab(self.design, dsl.parse(self.design))
            sch = eager_deterministic_cc_scheduler if self.sched == "eager" else trivial_roundrobin_cc_scheduler
            top = TransactronContextElaboratable(elab, dependency_manager=dm, transaction_manager=TransactionManager(sch))
            return dm, elab, top

    def elaborates(self):
        """(accepted, error text): runs the real elaboration only."""
        from amaranth.hdl import Fragment
        dm, elab, top = self._construct()
        try:
            with warnings.catch_warnings():
                warnings.simplefilter("ignore")
                with DependencyContext(dm):
                    Fragment.get(top, None)
            return True, None
        except Exception as e:  # any exception type counts as rejection
            return False, f"{type(e).__name__}: {str(e)[:200]}"

    def comb_loop(self):
        dm, elab, top = self._construct()
        with DependencyContext(dm):
            try:
                tsx.check_comb_cycles(top)
                return None
            except tsx.CombLoop as e:
                return str(e)

    def build(self, comb_check=True):
        if comb_check:
            loop = self.comb_loop()
            if loop:
                raise tsx.CombLoop(loop)
        dm, elab, top = self._construct()
        with DependencyContext(dm):
            # elaborate first (handles need the objects created during elaboration)
            from amaranth.hdl import Fragment
            with warnings.catch_warnings():
                warnings.simplefilter("ignore")
                frag = Fragment.get(top, None)
            inputs, observed = elab.handles()
            drv = tsx.Driver(frag, inputs, observed)
        self.in_names = [n for n, _ in inputs]
        self.obs_names = [n for n, _ in observed]
        self.input_names = self.in_names
        self.drv = drv
        return drv

    # -- tsx model interface
    def init(self):
        if self.rr_monitor:
            return tuple(0 for _ in self.sync_ids) + (tuple(0 for _ in self.static.trans),)
        return tuple(0 for _ in self.sync_ids)

    def alphabet(self, ref):
        if not hasattr(self, "_alpha"):
            doms = [range(1 << w) for _, w in self.info.inputs]
            self._alpha = [tuple(v) for v in itertools.product(*doms)] if doms else [()]
        return self._alpha

    def step(self, ref, inp, obs):
        I = dict(zip(self.in_names, inp))
        O = dict(zip(self.obs_names, obs))
        V = self.oracle.check(I, O)
        nref = []
        for k, aid in enumerate(self.sync_ids):
            a = self.info.assigns[aid]
            g = O[f"g{aid}"]
            if g != ref[k]:
                V.append(("C06", f"sync.witness: register of assignment {aid} in {a.body} is {g}, expected {ref[k]}"))
            nref.append(ref[k] ^ int(a.exp_toggle))
        if self.rr_monitor:
            last = self.oracle.last
            waits = ref[-1]
            nw = []
            for comp in self.comps:
                nrun = sum(1 for t in comp if last.runs[t])
                nen = sum(1 for t in comp if last.enabled[t])
                if nrun > 1:
                    V.append(("C09", f"rr.multi_grant: {nrun} transactions of component {comp} run in one cycle"))
                if nen and not nrun:
                    V.append(("C09", f"rr.idle: component {comp} has an enabled transaction but nothing runs"))
                if nen >= 2:
                    self.oracle.count("nt_rr_contention")
            for k, t in enumerate(self.static.trans):
                if last.enabled[t] and not last.runs[t]:
                    w = waits[k] + 1
                    if w >= len(self.comp_of[t]):
                        V.append(("C09", f"rr.starvation: {t} enabled for {w} consecutive cycles without a grant "
                                         f"(component size {len(self.comp_of[t])})"))
                        w = len(self.comp_of[t]) - 1
                    nw.append(w)
                    if w >= 2:
                        self.oracle.count("nt_rr_waited_two_cycles")
                else:
                    nw.append(0)
            nref.append(tuple(nw))
        if self.props is not None:
            V = [v for v in V if v[0] in self.props]
        return [f"{p}.{c}" for p, c in V], tuple(nref)

    def describe(self, inp):
        return {n: v for n, v in zip(self.in_names, inp) if v}

    def describe_obs(self, obs):
        return {n: v for n, v in zip(self.obs_names, obs)}


# ---------------------------------------------------------------------------------------------


def run_design(design, props, *, simulate=True, max_states=64, want_accept=None):
    """One design, everything: elaboration verdict vs. reference, comb loops, exploration.
    Returns a dict of counts and a list of violations [(prop, clause, path_or_None)]."""
    out = {"accepted": None, "wf": None, "states": 0, "transitions": 0, "replayed": 0, "viol": [], "counters": {},
           "violating": 0, "nbits": 0}
    h = DesignH(design, props)
    out["nbits"] = h.nbits
    wf = h.static.ok and h.static.well_formed
    out["wf"] = wf
    out["reasons"] = list(h.static.reasons)
    acc, err = h.elaborates()
    out["accepted"] = acc
    out["err"] = err
    out["sample"] = [f"elaboration {'accepted' if acc else 'rejected: ' + str(err)}; reference: "
                     f"{'well-formed' if wf else 'ill-formed ' + str(h.static.reasons)}"]
    if acc != wf:
        out["viol"].append(("C11", f"elaboration.verdict: library {'accepts' if acc else 'rejects (' + str(err) + ')'} "
                                   f"but reference says {'well-formed' if wf else 'ill-formed ' + str(h.static.reasons)}", None))
    if not acc or not h.static.ok:
        return out
    loop = h.comb_loop()
    if loop:
        if wf:
            out["viol"].append(("C10", f"comb_loop: {loop[:200]}", None))
        return out
    if not simulate or not wf:
        return out
    drv = h.build(comb_check=False)
    res = tsx.explore(drv, h, max_states=max_states, replay_cap=2)
    out["states"] = res.states
    out["transitions"] = res.transitions
    out["replayed"] = res.replayed
    out["violating"] = res.violating_transitions
    out["counters"] = dict(h.counters)
    out["exhaustive"] = res.exhaustive
    for v in res.violations[:1]:
        cl = v["clauses"][0]
        prop, clause = cl.split(".", 1)
        out["viol"].append((prop, clause, [list(x) for x in v["path"]]))
        out["path_desc"] = [h.describe(x) for x in v["path"]]
    if res.sample_paths:
        out["sample"] = [h.describe(x) for x in res.sample_paths[-1]]
    else:
        out["sample"] = [h.describe(h.alphabet(())[-1])]
    return out


def batch_job(family, params, start, stop, props, sched, simulate=True):
    """Processes designs[start:stop] of a family (regenerated deterministically in the worker)."""
    from . import families
    t0 = time.time()
    gen = families.FAMILIES[family](**params)
    agg = {"designs": 0, "accepted": 0, "rejected": 0, "states": 0, "transitions": 0, "replayed": 0, "counters": {},
           "viol": [], "errors": [], "sample": None, "max_bits": 0, "simulated": 0, "violating": 0}
    for idx, design in enumerate(itertools.islice(gen, start, stop)):
        design = dict(design, sched=sched)
        try:
            r = run_design(design, props, simulate=simulate)
        except Exception:
            agg["errors"].append({"design": design, "error": traceback.format_exc()[-1500:]})
            continue
        agg["designs"] += 1
        agg["accepted" if r["accepted"] else "rejected"] += 1
        agg["states"] += r["states"]
        agg["transitions"] += r["transitions"]
        agg["replayed"] += r["replayed"]
        agg["violating"] += r["violating"]
        agg["max_bits"] = max(agg["max_bits"], r["nbits"])
        if r["transitions"]:
            agg["simulated"] += 1
        for k, v in r["counters"].items():
            agg["counters"][k] = agg["counters"].get(k, 0) + v
        for prop, clause, path in r["viol"]:
            if props is None or prop in props:
                if len(agg["viol"]) < 20:
                    agg["viol"].append({"prop": prop, "clause": clause, "path": path, "design": design,
                                        "path_desc": r.get("path_desc"), "index": start + idx})
                else:
                    agg["viol_more"] = agg.get("viol_more", 0) + 1
        if agg["sample"] is None and r.get("sample"):
            agg["sample"] = {"design": design, "path": r["sample"]}
    agg["wall"] = time.time() - t0
    return agg


def replay(rp):
    """Called by replay.py: returns True if the violation does NOT reproduce."""
    design = rp["design"]
    props = [rp["prop"]]
    h = DesignH(design, props)
    if rp.get("path") is None:
        r = run_design(design, props, simulate=False)
        for prop, clause, _ in r["viol"]:
            print(f"  {prop}: {clause}")
        return not r["viol"]
    drv = h.build()
    out = tsx.replay_path(drv, h, [tuple(x) for x in rp["path"]])
    for k, x in enumerate(rp["path"]):
        print(f"  cycle {k}: {h.describe(tuple(x))}")
    for v in out:
        print(f"  at cycle {v['step']}: {v['clauses']}")
        print(f"  observed: {h.describe_obs(v['obs'])}")
    return not out


def run_family_check(rep, prop, fams, sched_list=("eager",), simulate=True, chunk=40, props=None):
    """fams: list of (family name, params).  Adds everything to the report."""
    from . import families
    from .runner import run_jobs
    props = props or [prop]
    jobs = []
    meta = []
    for fam, params in fams:
        n = families.count(fam, params)
        for sched in sched_list:
            for s in range(0, n, chunk):
                jobs.append(("vlib.e2", "batch_job", {"family": fam, "params": params, "start": s,
                                                      "stop": min(n, s + chunk), "props": props, "sched": sched,
                                                      "simulate": simulate}))
                meta.append((fam, params, sched))
    results = run_jobs(jobs)
    per = {}
    for (fam, params, sched), r in zip(meta, results):
        if r.get("kind") == "crash":
            rep.errors.append(r["error"])
            continue
        key = f"{fam}{json.dumps(params, sort_keys=True)}/{sched}"
        p = per.setdefault(key, {"designs": 0, "accepted": 0, "rejected": 0, "simulated": 0, "states": 0, "transitions": 0})
        for k in p:
            p[k] += r[k]
        rep.states += r["states"]
        rep.transitions += r["transitions"]
        rep.evaluations += r["transitions"] if simulate else r["designs"]
        rep.replayed += r["replayed"]
        rep.bump("designs", r["designs"])
        rep.bump("designs_accepted", r["accepted"])
        rep.bump("designs_rejected", r["rejected"])
        rep.bump("designs_simulated", r["simulated"])
        for k, v in r["counters"].items():
            rep.bump(k, v)
        for e in r["errors"]:
            rep.errors.append(json.dumps(e["design"]) + "\n" + e["error"])
        if r["sample"] and len(rep.samples) < 5:
            rep.samples.append(r["sample"])
        for v in r["viol"]:
            d = {k: v["design"][k] for k in ("mods", "rels", "sched") if k in v["design"]}
            rep.violation(where=f"{fam}", cfg=d, clause=v["clause"], path=v["path"],
                          detail={"path_desc": v["path_desc"], "family_index": v["index"], "params": params},
                          replay={"kind": "e2", "module": "vlib.e2", "design": v["design"], "path": v["path"],
                                  "prop": v["prop"]})
    rep.extra.setdefault("families", {}).update(per)
    if not simulate:
        # design-level checks: a "state" is a design, a "transition" one elaboration verdict
        rep.states = max(rep.states, rep.counters.get("designs", 0))
        rep.transitions = max(rep.transitions, rep.counters.get("designs", 0))
