"""Exhaustive case enumeration for pure-Python helpers (the degenerate explorer: one state, one 'transition' per case).

A *case generator*  g(**cfg) yields (case: JSON-able descriptor, verdict: None | str, tags: iterable of counter names).
It must enumerate EVERY case of its bounded universe, simplest first, calling the real library code for each."""
from __future__ import annotations

import importlib
import time
import traceback


def enum_job(module, func, cfg, only=None):
    t0 = time.time()
    out = {"kind": "enum", "module": module, "func": func, "cfg": cfg, "cases": 0, "violating": 0, "violations": [],
           "counters": {}, "error": None, "sample": None}
    try:
        g = getattr(importlib.import_module(module), func)
        for case, verdict, tags in g(**cfg):
            if only is not None and case != only:
                continue
            out["cases"] += 1
            for t in tags:
                out["counters"][t] = out["counters"].get(t, 0) + 1
            if verdict:
                out["violating"] += 1
                if len(out["violations"]) < 3:
                    out["violations"].append({"case": case, "clause": verdict})
            out["sample"] = case
    except Exception:
        out["error"] = traceback.format_exc()
    out["wall"] = time.time() - t0
    return out


def ENUM(module, func, cfg):
    return ("vlib.enumr", "enum_job", {"module": module, "func": func, "cfg": cfg})


def add_enum(rep, results):
    for r in results:
        if r.get("error"):
            rep.errors.append(f"{r.get('func')} {r.get('cfg')}: {r['error']}")
            continue
        rep.states += 1
        rep.transitions += r["cases"]
        rep.evaluations += r["cases"]
        rep.replayed += r["cases"]          # every case runs the real code directly; there is no separate model trace
        for k, v in r["counters"].items():
            rep.bump(k, v)
        rep.per_config.append({"generator": r["func"], "cfg": r["cfg"], "cases": r["cases"], "violating": r["violating"],
                               "wall_s": round(r["wall"], 2)})
        if r["sample"] is not None and len(rep.samples) < 6:
            rep.samples.append({"generator": r["func"], "cfg": r["cfg"], "last_case": r["sample"]})
        for v in r["violations"][:1]:
            rep.violation(where=r["func"], cfg=r["cfg"], clause=v["clause"], path=v["case"],
                          detail={"case": v["case"], "violating_cases": r["violating"]},
                          replay={"kind": "enum", "module": "vlib.enumr", "spec_module": r["module"], "func": r["func"],
                                  "cfg": r["cfg"], "case": v["case"]})


def _norm(x):
    import json
    return json.loads(json.dumps(x, default=str))


def replay(rp):
    g = getattr(importlib.import_module(rp["spec_module"]), rp["func"])
    want = _norm(rp["case"])
    for case, verdict, _ in g(**rp["cfg"]):
        if _norm(case) == want:
            print(f"  case {case}: {verdict or 'ok'}")
            return not verdict
    print("  case not found in the universe any more")
    return True
