"""Bounded-exhaustive design families for E2.  Every generator is deterministic and enumerates EVERY design of
its grammar fragment within the stated bounds (no sampling)."""
from __future__ import annotations

import functools
import itertools
import json


def call(m, en="1", arg=None):
    return ["call", m, en, arg]


def If(*branches, has_else=False):
    return ["if", [list(b) for b in branches], has_else]


def Sw(width, cases, default=None):
    return ["sw", width, [[v, list(s)] for v, s in cases], None if default is None else list(default)]


def Fsm(*states):
    return ["fsm", [[list(s), n, adv] for s, n, adv in states]]


def T(name, st, rdy="in"):
    return ["def", {"n": name, "k": "t", "rdy": rdy, "st": list(st)}]


def M(name, st=(), rdy="in", nx=False, i=0, o=None, val=False, sc=False):
    return ["def", {"n": name, "k": "m", "rdy": rdy, "nx": nx, "sc": sc, "i": i, "o": o, "val": val, "st": list(st)}]


def asg(dom):
    return ["asg", dom]


def D(mods, rels=()):
    return {"mods": [list(m) for m in mods], "rels": [list(r) for r in rels]}


# ---------------------------------------------------------------------------------------------
# body templates over call placeholders


def one_slot(X, arg=None, small=False):
    yield [call(X, arg=arg)]
    yield [call(X, en="in", arg=arg)]
    yield [If([call(X, arg=arg)])]


def two_slot(X, Y, ax=None, ay=None, small=False):
    cx, cy = call(X, arg=ax), call(Y, arg=ay)
    yield [cx, cy]
    yield [If([cx], [cy], has_else=True)]
    yield [If([cx]), If([cy])]
    yield [If([cx], [cy])]
    yield [Sw(1, [(0, [cx]), (1, [cy])])]
    # a Switch that FOLLOWS an If at the same level is parallel to it (not an alternative of it)
    yield [If([cx]), Sw(1, [(0, [cy])])]
    if small:
        return
    yield [If([cx]), Fsm(([cy], 0, "1"))]
    yield [Sw(1, [(0, [cx])]), Sw(1, [(1, [cy])])]
    yield [If([], [cx]), Sw(1, [(0, [])], default=[cy])]
    yield [Fsm(([cx], 1, "1"), ([cy], 0, "1"))]
    yield [If([If([cx], [cy], has_else=True)])]
    yield [If([cx]), call(Y, en="in", arg=ay)]
    yield [Sw(2, [(0, [cx])], default=[cy])]
    yield [If([cx], [call(Y, en="in", arg=ay)], has_else=True)]


def bodies(methods, arg=None, small=False, maxslots=2):
    out = []
    for X in methods:
        out += list(one_slot(X, arg, small))
    if maxslots >= 2:
        for X in methods:
            for Y in methods:
                out += list(two_slot(X, Y, arg, arg, small))
    return out


# ---------------------------------------------------------------------------------------------


def f_flat(nmeth=2, small=False, args=False, third=False):
    """2 (3 with third) transactions over `nmeth` leaf methods, every exclusive/nonexclusive assignment, every pair of
    body templates."""
    meths = [f"M{i}" for i in range(nmeth)]
    bs = bodies(meths, arg="in" if args else None, small=small)
    for nx in itertools.product([False, True], repeat=nmeth):
        mdefs = [M(m, nx=nx[i], i=1 if args else 0, o="notarg" if args else None) for i, m in enumerate(meths)]
        for b0 in bs:
            for b1 in bs:
                if third:
                    for b2 in list(one_slot(meths[0], "in" if args else None)):
                        yield D([mdefs + [T("T0", b0), T("T1", b1), T("T2", b2)]])
                else:
                    yield D([mdefs + [T("T0", b0), T("T1", b1)]])


def f_chain(small=False, medium=False):
    """two-level call graphs: transactions call mid methods A/B (exclusive or not, with a control structure inside) which
    call leaves L/K; diamonds and shared mids included."""
    mid_bodies = lambda L, K: [[call(L)], [call(L, en="in")], [If([call(L)])], [If([call(L)], [call(K)], has_else=True)],
                               [call(L), call(K)]]  # noqa: E731
    tb = bodies(["A", "B", "L"], small=True) if not small else (
        [[call("A")], [call("B")], [call("L")], [call("A"), call("B")], [If([call("A")], [call("B")], has_else=True)],
         [call("A"), call("L")], [If([call("A")]), If([call("L")])], [call("A", en="in")],
         # the same mid method reached from two exclusive call sites (one call path per site)
         [If([call("A")], [call("A")], has_else=True)], [Sw(1, [(0, [call("A")]), (1, [call("A", en="in")])])]])
    for nxa, nxb, nxl in itertools.product([False, True], repeat=3):
        for ma in mid_bodies("L", "K"):
            for mb in (mid_bodies("L", "K") if not (small or medium) else [[call("L")], [call("K")]]):
                defs = [M("L", nx=nxl), M("K"), M("A", ma, nx=nxa), M("B", mb, nx=nxb)]
                for b0 in tb:
                    for b1 in ([[call("A")], [call("B")], [call("L")]] if small else (tb[:6] if medium else tb[:12])):
                        yield D([defs + [T("T0", b0), T("T1", b1)]])


def f_ctrl():
    """transactions *defined* inside alternatives / parallel structures / different modules, calling one exclusive method;
    plus two calls of one body in every pair of positions of a two-level control skeleton."""
    m0 = M("M0")
    c = [call("M0")]
    t0, t1 = T("T0", c), T("T1", c)
    yield D([[m0, If([t0], [t1], has_else=True)]])
    yield D([[m0, If([t0], [t1])]])
    yield D([[m0, If([t0]), If([t1])]])
    yield D([[m0, Sw(1, [(0, [t0]), (1, [t1])])]])
    yield D([[m0, Sw(2, [(0, [t0])], default=[t1])]])
    yield D([[m0, Fsm(([t0], 1, "in"), ([t1], 0, "in"))]])
    yield D([[m0, If([t0]), t1]])
    yield D([[m0, t0], [t1]])
    yield D([[m0, If([If([t0], [t1], has_else=True)])]])
    yield D([[m0, If([t0, t1])]])
    yield D([[m0, If([t0], [If([t1])], has_else=True)]])
    yield D([[m0, If([t0]), Sw(1, [(0, [t1])])]])
    yield D([[m0, If([t0]), Sw(1, [(0, [])], default=[t1])]])
    yield D([[m0, If([t0]), Fsm(([t1], 0, "1"))]])
    yield D([[m0, If([], [t0]), Fsm(([], 1, "in"), ([t1], 0, "in"))]])
    yield D([[m0, Sw(1, [(0, [t0])]), Sw(1, [(0, [t1])])]])
    # the same with the method defined AFTER its users (the control structures are then the first ones of the module)
    for shape in ([If([t0], [t1], has_else=True)], [If([t0]), If([t1])], [Sw(1, [(0, [t0]), (1, [t1])])],
                  [Fsm(([t0], 1, "in"), ([t1], 0, "in"))], [If([t0]), t1],
                  [If([t0]), Sw(1, [(0, [t1])])], [If([t0]), Sw(1, [(0, [])], default=[t1])],
                  [If([t0]), Fsm(([t1], 0, "1"))], [If([], [t0]), Fsm(([], 1, "in"), ([t1], 0, "in"))],
                  [Sw(1, [(0, [t0])]), Sw(1, [(0, [t1])])], [Sw(1, [(0, [t0])]), If([t1])],
                  [Fsm(([t0], 0, "1")), If([t1])], [If([t0]), If([]), Sw(1, [(0, [t1])])],
                  [Sw(1, [(0, [])]), If([t0]), If([], [t1], has_else=True)]):
        yield D([shape + [m0]])
    # one body, two calls, positions of a two-level skeleton
    pos = ["top", "if0", "if1", "if0_in0", "if0_in1", "par", "psw", "pfsm"]

    def place(assign):
        top, if0, if1, in0, in1, par, psw, pfsm = [], [], [], [], [], [], [], []
        slots = {"top": top, "if0": if0, "if1": if1, "if0_in0": in0, "if0_in1": in1, "par": par, "psw": psw, "pfsm": pfsm}
        for p in assign:
            slots[p].append(call("M0"))
        st = list(top)
        inner = [If(in0, in1, has_else=True)] if (in0 or in1) else []
        if if0 or if1 or inner:
            st.append(If(if0 + inner, if1, has_else=True))
        if par:
            st.append(If(par))
        if psw:
            st.append(Sw(1, [(0, [])], default=psw))
        if pfsm:
            st.append(Fsm(([], 1, "in"), (pfsm, 0, "in")))
        return st

    for a in pos:
        for b in pos:
            if a <= b:
                yield D([[m0, T("T0", place([a, b]))]])
                yield D([[M("M0", nx=True), T("T0", place([a, b]))]])
    # the same through a mid method
    for a in pos:
        for b in pos:
            if a <= b:
                yield D([[m0, M("A", place([a, b])), T("T0", [call("A")])]])
    for kind in ("sw", "fsm"):
        for same in (False, True):
            if kind == "sw":
                st = [Sw(1, [(0, [call("M0")] + ([call("M0")] if same else [])), (1, [] if same else [call("M0")])])]
            else:
                st = [Fsm(([call("M0")] + ([call("M0")] if same else []), 1, "1"), ([] if same else [call("M0")], 0, "1"))]
            yield D([[m0, T("T0", st)]])


RELS = [None, ("conf", "U"), ("conf", "L"), ("conf", "R"), ("before", None)]


def f_rel(n=2, on="both", extra=True):
    """n transactions T_i each calling its own method M_i; every assignment of {none, add_conflict U/L/R, schedule_before}
    to every unordered pair, placed on the transactions or on the methods; plus the same-transaction shapes."""
    names_t = [f"T{i}" for i in range(n)]
    names_m = [f"M{i}" for i in range(n)]
    pairs = list(itertools.combinations(range(n), 2))
    targets = {"t": [names_t], "m": [names_m], "both": [names_t, names_m]}[on]
    for names in targets:
        for assign in itertools.product(RELS, repeat=len(pairs)):
            rels = []
            for (i, j), r in zip(pairs, assign):
                if r is not None:
                    rels.append([r[0], names[i], names[j], r[1]])
            defs = [M(m) for m in names_m] + [T(t, [call(names_m[i])]) for i, t in enumerate(names_t)]
            yield D([defs], rels)
    if extra:
        # one transaction calling both ends of a relation; a third party sharing one end
        for r in RELS[1:]:
            rel = [[r[0], "M0", "M1", r[1]]]
            yield D([[M("M0"), M("M1"), T("T0", [call("M0"), call("M1")])]], rel)
            yield D([[M("M0"), M("M1"), T("T0", [call("M0"), call("M1")]), T("T1", [call("M1")])]], rel)
            yield D([[M("M0"), M("M1"), T("T0", [If([call("M0")], [call("M1")], has_else=True)])]], rel)
            yield D([[M("M0"), M("M1"), M("A", [call("M0")]), T("T0", [call("A")]), T("T1", [call("M1")])]], rel)
            yield D([[M("M0"), M("M1"), M("A", [call("M0")], nx=True), T("T0", [call("A")]), T("T1", [call("A")]),
                      T("T2", [call("M1")])]], rel)
            # relations between a transaction and a method
            yield D([[M("M0"), T("T0", []), T("T1", [call("M0")])]], [[r[0], "T0", "M0", r[1]]])
            yield D([[M("M0"), T("T0", []), T("T1", [call("M0")])]], [[r[0], "M0", "T0", r[1]]])
        # a prioritised relation between two methods with several callers each: one caller pair sits in exclusive
        # alternatives (defined first), the other pair does not; both definition orders of the second pair
        for r in RELS[2:]:
            for a, b in (("M0", "M1"), ("M1", "M0")):
                rel = [[r[0], a, b, r[1]]]
                excl = If([T("T0", [call("M1")])], [T("T1", [call("M0")])], has_else=True)
                for second in ([T("T2", [call("M1")]), T("T3", [call("M0")])], [T("T2", [call("M0")]), T("T3", [call("M1")])]):
                    yield D([[M("M0"), M("M1"), excl] + second], rel)
                    yield D([[M("M0"), M("M1")] + second + [excl]], rel)
        # explicit schedule_before(ready_dependent=True) between non-conflicting bodies
        yield D([[M("M0"), M("M1"), T("T0", [call("M0")]), T("T1", [call("M1")])]], [["before_rd", "T0", "T1", None]])
        yield D([[M("M0"), M("M1"), T("T0", [call("M0")]), T("T1", [call("M1")])]], [["before_rd", "M0", "M1", None]])
        yield D([[M("M0"), M("M1"), T("T0", [call("M0", en="in")]), T("T1", [call("M1")])]], [["before_rd", "M0", "T1", None]])
        yield D([[M("M0"), M("M1"), T("T0", [call("M0")]), T("T1", [If([call("M1")])]), T("T2", [])]],
                [["before_rd", "T0", "M1", None], ["before_rd", "T0", "T2", None]])
        # a body with TWO ready dependencies: two explicit sources; an enclosing body plus an explicit source
        for tail in ([], [call("M2")]):
            yield D([[M("M0"), M("M1"), M("M2"), T("T0", [call("M0")]), T("T1", [call("M1")]), T("T2", tail)]],
                    [["before_rd", "T0", "T2", None], ["before_rd", "T1", "T2", None]])
            yield D([[M("M0"), M("M1"), M("M2"), T("T0", [call("M0")]), T("T1", [call("M1")]), T("T2", tail)]],
                    [["before_rd", "T1", "T2", None], ["before_rd", "T0", "T2", None]])
            yield D([[M("M0"), M("M2"), T("T1", [call("M0")]), T("T0", [T("N0", tail)])]], [["before_rd", "T1", "N0", None]])
            yield D([[M("M0"), M("M2"), T("T1", [call("M0")]), T("T0", [If([T("N0", tail)])])]], [["before_rd", "T1", "N0", None]])
        yield D([[M("M0"), M("M1"), M("M2"), T("T0", [call("M0")]), T("T1", [call("M1")]), T("T2", [call("M2")])]],
                [["before_rd", "M0", "M2", None], ["before_rd", "T1", "M2", None]])
        yield D([[M("M0"), T("T1", [call("M0")]), T("T0", [M("N0")]), T("T2", [call("N0")])]], [["before_rd", "T1", "N0", None]])
        # a prioritised conflict between two bodies that ALSO conflict implicitly (shared exclusive method); the same pair
        # declared twice, plain first and prioritised afterwards (and the other way round)
        for r in RELS[2:4]:
            yield D([[M("M0"), T("T0", [call("M0")]), T("T1", [call("M0")])]], [[r[0], "T0", "T1", r[1]]])
            yield D([[M("M0"), M("M1"), M("M2"), T("T0", [call("M1"), call("M0")]), T("T1", [call("M2"), call("M0")])]],
                    [[r[0], "M1", "M2", r[1]]])
            yield D([[M("M0"), M("M1"), M("A", [call("M0")]), T("T0", [call("A")]), T("T1", [call("M1"), call("M0")])]],
                    [[r[0], "A", "M1", r[1]]])
            for names in (("T0", "T1"), ("M0", "M1")):
                defs = [M("M0"), M("M1"), T("T0", [call("M0")]), T("T1", [call("M1")])]
                yield D([defs], [["conf", names[0], names[1], "U"], [r[0], names[0], names[1], r[1]]])
                yield D([defs], [[r[0], names[0], names[1], r[1]], ["conf", names[0], names[1], "U"]])
                yield D([defs], [["conf", names[1], names[0], "U"], [r[0], names[0], names[1], r[1]]])
        # shared exclusive method + prioritised explicit conflict elsewhere
        for r in RELS[1:4]:
            yield D([[M("M0"), M("M1"), T("T0", [call("M0")]), T("T1", [call("M0"), call("M1")]), T("T2", [call("M1")])]],
                    [[r[0], "T0", "T2", r[1]]])


def f_nest():
    """nested transactions / methods (depth <= 2) inside bodies and control structures, assignments in all four domains at
    every level."""
    doms = ["comb", "sync", "av_comb", "top_comb"]
    A4 = [asg(d) for d in doms]
    m0 = M("M0")
    for inner_kind in ("t", "m"):
        for where in ("plain", "if", "else", "sw", "fsm"):
            for inner_calls in ([], [call("M0")]):
                inner_st = A4 + inner_calls
                if inner_kind == "t":
                    inner = T("N0", inner_st)
                    caller = []
                else:
                    inner = M("N0", inner_st)
                    caller = [T("T1", [call("N0")] + A4[:1])]
                if where == "plain":
                    st = A4 + [inner]
                elif where == "if":
                    st = A4[:1] + [If(A4 + [inner])]
                elif where == "else":
                    st = [If(A4[:2], A4 + [inner], has_else=True)]
                elif where == "sw":
                    st = [Sw(1, [(0, A4[:2]), (1, A4 + [inner])])]
                else:
                    st = [Fsm((A4[:2], 1, "in"), (A4 + [inner], 0, "in"))]
                for outer_calls in ([], [call("M0", en="in")]):
                    if inner_calls and outer_calls:
                        continue   # would be a conflict between parent and nested transaction (C11 family)
                    yield D([[m0, T("T0", st + outer_calls)] + caller])
    # two levels of nesting
    yield D([[m0, T("T0", A4 + [T("N0", A4 + [T("N1", A4 + [call("M0")])])])]])
    yield D([[m0, T("T0", [If(A4 + [T("N0", [If(A4 + [call("M0")])])])])]])
    yield D([[m0, T("T0", A4 + [M("N0", A4 + [M("N1", A4)])]), T("T1", [call("N0")]), T("T2", [call("N1")])]])
    # assignments at module top level and under plain control structures (no body)
    yield D([[If(A4, A4, has_else=True)] + A4])
    yield D([[Fsm((A4, 1, "in"), (A4, 0, "1"))]])
    # If / Elif / (Elif) / Else chains with all four domains in every branch, at module level, inside a body, with calls
    yield D([[If(A4, A4, A4, has_else=True)]])
    yield D([[If(A4, A4)]])
    yield D([[m0, T("T0", [If(A4, A4, A4, has_else=True)])]])
    yield D([[m0, T("T0", A4[:1] + [If(A4[2:3], A4[2:3] + [call("M0")], A4[2:3], A4[2:3], has_else=True)])]])
    yield D([[m0, T("T0", [If([call("M0")], A4[2:3] + [call("M0")], [call("M0")] + A4[2:3], has_else=True)])]])
    yield D([[m0, M("N0", [If(A4, A4 + [call("M0")], has_else=False)]), T("T0", [call("N0", en="in")])]])
    # an FSM nested in a state of another FSM, followed by further states of the outer one
    inner = Fsm((A4[2:3], 1, "in"), (A4[2:3] + A4[:1], 0, "in"))
    yield D([[Fsm(([inner] + A4[2:3], 1, "in"), (A4, 2, "in"), (A4[2:3], 0, "1"))]])
    yield D([[m0, T("T0", [Fsm(([inner], 1, "in"), (A4[2:3] + [call("M0")], 0, "in"))])]])
    # nested transaction in the Else of its parent's call
    yield D([[m0, T("T0", [If([call("M0")], [T("N0", [call("M0")] + A4)], has_else=True)])]])
    # Switch with a Default branch: all four domains and a call in the Default, at module level and inside a body
    yield D([[Sw(2, [(0, A4), (1, A4[:2])], default=A4)]])
    yield D([[Sw(1, [(0, A4[2:3])], default=A4)] + A4[:1]])
    yield D([[m0, T("T0", [Sw(2, [(0, A4[2:3]), (2, A4[:1])], default=A4 + [call("M0")])])]])
    yield D([[m0, T("T0", [Sw(2, [(1, [call("M0")] + A4[2:3])], default=[call("M0")] + A4[2:3])])]])
    yield D([[m0, M("N0", [Sw(1, [(0, A4[2:3])], default=A4[2:3] + [call("M0")])]), T("T0", [call("N0", en="in")])]])


def f_val():
    """validate_arguments: directly and through a mid method, under conditions and enable_call, exclusive/nonexclusive."""
    for nx in (False, True):
        for c in ([call("V", arg="in")], [call("V", en="in", arg="in")], [If([call("V", arg="in")])],
                  [If([call("V", arg=0)], [call("V", arg=1)], has_else=True)], [call("V", arg=0)], [call("V", arg=1)]):
            v = M("V", i=1, val=True, nx=nx, o="notarg")
            yield D([[v, T("T0", c)]])
            yield D([[v, T("T0", c), T("T1", [call("V", arg="in")])]])
            yield D([[v, M("A", c), T("T0", [call("A")])]])
            yield D([[v, M("A", c), T("T0", [call("A", en="in")])]])
            yield D([[v, M("A", c), T("T0", [If([call("A")])]), T("T1", [call("V", arg=1)])]])
            yield D([[v, M("A", c), T("T0", [If([call("A")], [call("A")], has_else=True)])]])
            yield D([[v, M("A", c), M("B", [call("A")]), T("T0", [If([call("B")], [call("A")], has_else=True)])]])


def f_prov():
    """provide() chains of length <= 2"""
    for nx in (False, True):
        m0 = M("M0", i=1, o="notarg", nx=nx)
        for b0 in ([call("P0", arg="in")], [call("P1", arg="in")], [If([call("P0", arg="in")], [call("M0", arg="in")], has_else=True)],
                   [call("P1", en="in", arg="in")]):
            for b1 in ([call("M0", arg="in")], [call("P0", arg="in")], [call("P1", arg="in")]):
                yield D([[m0, ["alias", "P0", "M0"], ["alias", "P1", "P0"], T("T0", b0), T("T1", b1)]])
        # a method with validate_arguments reached through provide() chains, and a mid method calling the alias
        v0 = M("M0", i=1, o="notarg", nx=nx, val=True)
        al = [["alias", "P0", "M0"], ["alias", "P1", "P0"]]
        yield D([[v0] + al + [T("T0", [call("P1", arg="in")]), T("T1", [call("M0", arg="in")])]])
        yield D([[v0] + al + [T("T0", [If([call("P0", arg=0)], [call("P1", arg=1)], has_else=True)])]])
        yield D([[v0] + al + [M("A", [call("P1", arg="in")]), T("T0", [call("A", en="in")]), T("T1", [call("P0", arg=1)])]])


def f_xrel():
    """explicit relations between bodies that live in different TModules, defined under look-alike control structures
    (same structure position, different alternatives) so that only the module identity separates their control paths"""
    a1 = [asg("comb")]
    for r in RELS[1:]:
        for on in ("t", "m"):
            x, y = ("T0", "T1") if on == "t" else ("M0", "M1")
            rel = [[r[0], x, y, r[1]]]
            t0, t1 = T("T0", [call("M0")]), T("T1", [call("M1")])
            yield D([[M("M0"), M("M1")], [If([t0], a1, has_else=True)], [If(a1, [t1], has_else=True)]], rel)
            yield D([[M("M0"), M("M1")], [Sw(1, [(0, [t0]), (1, a1)])], [Sw(1, [(0, a1), (1, [t1])])]], rel)
            yield D([[M("M0"), M("M1"), If([t0], a1, has_else=True)], [If(a1, [t1], has_else=True)]], rel)
            yield D([[M("M0"), M("M1")], [T("T0", [If([call("M0")], a1, has_else=True)])],
                     [T("T1", [If(a1, [call("M1")], has_else=True)])]], rel)
            yield D([[M("M0"), M("M1")], [t0], [t1]], rel)
            # related bodies in different alternatives of ONE structure of one module (the relation is exempt from conflict
            # because the alternatives exclude each other -- they must really do so): If/Elif/Else chains, Switch, FSM
            yield D([[M("M0"), M("M1"), If([t0], [t1])]], rel)
            yield D([[M("M0"), M("M1"), If(a1, [t0], [t1], has_else=True)]], rel)
            yield D([[M("M0"), M("M1"), If([t0], a1, [t1])]], rel)
            yield D([[M("M0"), M("M1"), If([t0], [t1], has_else=True)]], rel)
            yield D([[M("M0"), M("M1"), Sw(2, [(0, [t0]), (1, a1)], default=[t1])]], rel)
            yield D([[M("M0"), M("M1"), Fsm(([t0], 1, "in"), ([t1], 0, "in"))]], rel)
            if on == "m":
                yield D([[M("M0"), M("M1"), T("T0", [If([call("M0")], [call("M1")])])]], rel)


def f_consten():
    """call sites switched off by a constant-false enable_call (an Amaranth Const, e.g. an elaboration-time flag), next to
    live calls of the same method from the same and from another transaction; 1-bit arguments"""
    for nx, c0arg in itertools.product((False, True), (1, 0)):
        m0 = M("M0", nx=nx, i=1, o="notarg")
        m1 = M("M1", i=1, o="notarg")
        c0 = call("M0", en="0", arg=c0arg)      # both argument values: a leaked call must change what the combiner returns
        live = call("M0", arg="in")
        b0s = [[c0], [c0, call("M1", arg="in")], [If([c0])], [If([c0], [live], has_else=True)], [call("M1", arg=0), c0],
               [Sw(1, [(0, [c0]), (1, [live])])]]
        if nx:
            b0s += [[c0, live], [c0, call("M0", en="in", arg=0)]]
        for b0 in b0s:
            for b1 in ([live], [call("M0", en="in", arg="in")], [call("M1", arg="in")], [c0]):
                yield D([[m0, m1, T("T0", b0), T("T1", b1)]])
        yield D([[m0, m1, M("A", [c0], nx=nx), T("T0", [call("A")]), T("T1", [live])]])
        yield D([[m0, m1, M("A", [c0, call("M1", arg=1)]), T("T0", [call("A", en="in")]), T("T1", [live])]])


def f_provrel():
    """relations declared on methods that are defined through provide() (one or both ends, chains of two proxies)"""
    a, b = M("A"), M("B")
    al = [["alias", "PA", "A"], ["alias", "PB", "B"], ["alias", "QA", "PA"]]
    for r in RELS[1:]:
        for x, y in (("PA", "PB"), ("PA", "B"), ("A", "PB"), ("QA", "PB"), ("QA", "B")):
            rel = [[r[0], x, y, r[1]]]
            yield D([[a, b] + al + [T("T0", [call("PA")]), T("T1", [call("PB")])]], rel)
            yield D([[a, b] + al + [T("T0", [call("A")]), T("T1", [call("B")])]], rel)
            yield D([[a, b] + al + [T("T0", [call("QA", en="in")]), T("T1", [If([call("PB")])]), T("T2", [call("A")])]], rel)
    # Forwarder-style pair whose ordering relation sits on the proxies while the callers conflict
    xm = M("X")
    w, rd = M("W"), M("R", rdy="or_run:W")
    for order in (0, 1):
        for pw, pr in (("PW", "PR"), ("PW", "R"), ("W", "PR")):
            ts = [T("T0", [call("PW"), call("X")]), T("T1", [call("PR"), call("X")])]
            yield D([[xm, w, rd, ["alias", "PW", "W"], ["alias", "PR", "R"]] + (ts if not order else ts[::-1])],
                    [["before", pw, pr, None]])


def f_bad():
    """deliberately ill-formed designs, one defect each (C11), next to their repaired twins"""
    m0, m1 = M("M0"), M("M1")
    # recursion
    yield D([[M("A", [call("A")]), T("T0", [call("A")])]])
    yield D([[M("A", [call("B")]), M("B", [call("A")]), T("T0", [call("A")])]])
    yield D([[M("A", [call("B")]), M("B", [call("C")]), M("C", [If([call("A")])]), T("T0", [call("A")])]])
    yield D([[M("A", [call("B")]), M("B", []), T("T0", [call("A")])]])
    # priority cycles of length 2 and 3
    base = [M(f"M{i}") for i in range(3)] + [T(f"T{i}", [call(f"M{i}")]) for i in range(3)]
    for k1, k2 in itertools.product(["conf", "before"], repeat=2):
        yield D([base], [[k1, "T0", "T1", "L" if k1 == "conf" else None], [k2, "T1", "T0", "L" if k2 == "conf" else None]])
        yield D([base], [[k1, "T0", "T1", "L" if k1 == "conf" else None], [k2, "T0", "T1", "L" if k2 == "conf" else None]])
    for ks in itertools.product(["conf", "before"], repeat=3):
        r = lambda k, a, b: [k, a, b, "L" if k == "conf" else None]  # noqa: E731
        yield D([base], [r(ks[0], "T0", "T1"), r(ks[1], "T1", "T2"), r(ks[2], "T2", "T0")])
        yield D([base], [r(ks[0], "T0", "T1"), r(ks[1], "T1", "T2"), r(ks[2], "T0", "T2")])
        yield D([base], [r(ks[0], "M0", "M1"), r(ks[1], "M1", "M2"), r(ks[2], "M2", "M0")])
    # priority cycles in which one edge joins two bodies defined in exclusive alternatives of one structure (and the
    # acyclic twins)
    t = [T(f"T{i}", [call(f"M{i}")]) for i in range(3)]
    ms = [M(f"M{i}") for i in range(3)]
    for k1, k2 in itertools.product(["conf", "before"], repeat=2):
        r = lambda k, a, b: [k, a, b, "L" if k == "conf" else None]  # noqa: E731
        yield D([ms + [If([t[0]], [t[1]], has_else=True)]], [r(k1, "T0", "T1"), r(k2, "T1", "T0")])
        yield D([ms + [If([t[0]], [t[1]], has_else=True)]], [r(k1, "T0", "T1")])
        yield D([ms + [If([t[0]], [t[1]], has_else=True), t[2]]], [r(k1, "T0", "T1"), r(k2, "T1", "T2"), r("conf", "T2", "T0")])
        yield D([ms + [Sw(1, [(0, [t[0]]), (1, [t[1]])])]], [r(k1, "M0", "M1"), r(k2, "M1", "M0")])
    # single_caller from two transactions / one transaction
    yield D([[M("S", sc=True), T("T0", [call("S")]), T("T1", [call("S")])]])
    yield D([[M("S", sc=True), T("T0", [call("S")]), T("T1", [])]])
    yield D([[M("S", sc=True), M("A", [call("S")], nx=True), T("T0", [call("A")]), T("T1", [call("A")])]])
    # ready-dependent on a conflicting transaction
    yield D([[m0, T("T0", [call("M0"), T("N0", [call("M0")])])]])
    yield D([[m0, m1, T("T0", [call("M0"), T("N0", [call("M1")])])]])
    yield D([[m0, m1, T("T0", [call("M0"), T("N0", [call("M1")])])]], [["conf", "T0", "N0", "U"]])
    yield D([[m0, T("T0", [call("M0")]), T("T1", [call("M0")])]], [["before_rd", "T0", "T1", None]])
    # ... where only SOME pairs of call sites of the shared method are control-exclusive
    yield D([[m0, T("T0", [If([call("M0")], [call("M0"), T("N0", [call("M0")])], has_else=True)])]])
    yield D([[m0, T("T0", [If([call("M0")], [T("N0", [call("M0")])], has_else=True)])]])
    yield D([[m0, M("A", [call("M0")], nx=True), T("T0", [call("A"), T("N0", [If([call("A")], [call("M0")], has_else=True)])])]])
    yield D([[m0, m1, T("T0", [call("M0")]), T("T1", [call("M1")])]], [["before_rd", "T0", "T1", None]])
    # schedule_before source defined after its target
    yield D([[m0, m1, T("T0", [call("M0")]), T("T1", [call("M1")])]], [["before", "T1", "T0", None]])
    # nonexclusive method with / without an exclusive method in its call tree, called several times
    yield D([[m0, M("A", [call("M0")], nx=True), T("T0", [call("A"), call("A")])]])
    yield D([[M("A", [], nx=True), T("T0", [call("A"), call("A")])]])
    yield D([[M("X", nx=True), M("A", [call("X")], nx=True), T("T0", [call("A"), call("A"), call("X")])]])
    yield D([[m0, M("A", [call("M0")], nx=True), T("T0", [If([call("A")], [call("A")], has_else=True)])]])


def f_fwd():
    """Forwarder / Pipe style ready dependencies: R.ready reads W.run with W.schedule_before(R) (or nesting), and the calling
    transactions also conflict (shared exclusive method or add_conflict) -- the shape in which the priority order decides
    whether the circuit has a combinational cycle."""
    x = M("X")
    for style in ("fwd", "pipe"):
        if style == "fwd":
            w, r, rel = M("W"), M("R", rdy="or_run:W"), ["before", "W", "R", None]
            first, second = "W", "R"
        else:
            r, w, rel = M("R"), M("W", rdy="or_run:R"), ["before", "R", "W", None]
            first, second = "R", "W"
        mdefs = [x, w, r] if style == "fwd" else [x, r, w]
        for share in ("none", "method", "conf_U", "conf_first", "nx_mid"):
            for torder in (0, 1):
                for extra_t in (False, True):
                    c0 = [call(first)] + ([call("X")] if share == "method" else [])
                    c1 = [call(second)] + ([call("X")] if share == "method" else [])
                    rels = [rel]
                    t0, t1 = T("T0", c0), T("T1", c1)
                    if share == "conf_U":
                        rels.append(["conf", "T0", "T1", "U"])
                    if share == "conf_first":
                        rels.append(["conf", "T0", "T1", "L"])
                    defs = list(mdefs)
                    if share == "nx_mid":
                        defs.append(M("A", [call(first)], nx=True))
                        t0 = T("T0", [call("A")])
                    ts = [t0, t1] if torder == 0 else [t1, t0]
                    if extra_t:
                        ts.append(T("T2", [call("X")]))
                    yield D([defs + ts], rels)
    # two forwarders in a row: T0 -> W1 ; T1 -> R1, W2 ; T2 -> R2, all sharing X
    for share in (False, True):
        defs = [x, M("W1"), M("R1", rdy="or_run:W1"), M("W2"), M("R2", rdy="or_run:W2")]
        sx = [call("X")] if share else []
        ts = [T("T2", [call("R2")] + sx), T("T1", [call("R1"), call("W2")] + sx), T("T0", [call("W1")] + sx)]
        yield D([defs + ts], [["before", "W1", "R1", None], ["before", "W2", "R2", None]])
        yield D([defs + ts[::-1]], [["before", "W1", "R1", None], ["before", "W2", "R2", None]])
    # the same chain with every subset of the three stages sharing X, every definition order, and 0-2 extra conflict
    # partners of the first stage (the scheduler's tie-break sorts by number of conflicts): priorities must be respected
    # transitively through a middle stage that conflicts with nobody
    base_defs = [x, M("W1"), M("R1", rdy="or_run:W1"), M("W2"), M("R2", rdy="or_run:W2")]
    rels2 = [["before", "W1", "R1", None], ["before", "W2", "R2", None]]
    for mask in range(8):
        body = {"T0": [call("W1")], "T1": [call("R1"), call("W2")], "T2": [call("R2")]}
        for k, t in enumerate(("T0", "T1", "T2")):
            if mask >> k & 1:
                body[t] = body[t] + [call("X")]
        for perm in itertools.permutations(("T0", "T1", "T2")):
            for extra in (0, 1, 2):
                for who in ("T0", "T2"):
                    if extra == 0 and who == "T2":
                        continue
                    ts = [T(t, body[t]) for t in perm] + [T(f"E{i}", []) for i in range(extra)]
                    yield D([base_defs + ts], rels2 + [["conf", who, f"E{i}", "U"] for i in range(extra)])
    # writer and reader of one forwarder/pipe defined in different alternatives of one control structure (they can never
    # conflict directly), a third transaction conflicting with both, 0-3 extra conflict partners of either side
    for style in ("fwd", "pipe"):
        if style == "fwd":
            w, r, rel, first, second = M("W"), M("R", rdy="or_run:W"), ["before", "W", "R", None], "W", "R"
        else:
            r, w, rel, first, second = M("R"), M("W", rdy="or_run:R"), ["before", "R", "W", None], "R", "W"
        mdefs = [x, w, r] if style == "fwd" else [x, r, w]
        for ctrl in ("ifelse", "elseif", "sw"):
            for third in ("method", "conf"):
                for extra in (0, 1, 2, 3):
                    for who in ("T0", "T1"):
                        if extra == 0 and who == "T1":
                            continue
                        for third_first in (False, True):
                            sx = [call("X")] if third == "method" else []
                            t0, t1 = T("T0", [call(first)] + sx), T("T1", [call(second)] + sx)
                            if ctrl == "ifelse":
                                st = [If([t0], [t1], has_else=True)]
                            elif ctrl == "elseif":
                                st = [If([t1], [t0], has_else=True)]
                            else:
                                st = [Sw(1, [(0, [t0]), (1, [t1])])]
                            t2 = T("T2", sx)
                            rels = [rel] + [["conf", who, f"E{i}", "U"] for i in range(extra)]
                            if third == "conf":
                                rels += [["conf", "T0", "T2", "U"], ["conf", "T1", "T2", "U"]]
                            es = [T(f"E{i}", []) for i in range(extra)]
                            yield D([mdefs + ([t2] if third_first else []) + st + ([] if third_first else [t2]) + es], rels)
    # nesting: a nested method whose ready reads a sibling's run, parent conflicts with the callers
    yield D([[x, M("W"), T("T0", [call("W"), call("X")]), T("T1", [call("X"), M("N", rdy="or_run:W")]), T("T2", [call("N")])]],
            [["before", "W", "N", None]])


def f_xmod(small=True):
    """cross-module shapes: two transactions living in two *different* TModules, with the same structure positions in both
    modules so that only the module identity separates their control paths, calling methods defined in a third module; every
    pair of body templates.  Plus transactions *defined* under matching alternatives of look-alike structures in different
    modules, and mid methods of other modules calling a leaf in the If / the Else of their own first conditional."""
    meths = ["M0", "M1"]
    bs = bodies(meths, small=small)
    for nx in ((False, False), (False, True)):
        mdefs = [M(m, nx=nx[i]) for i, m in enumerate(meths)]
        for b0 in bs:
            for b1 in bs:
                yield D([mdefs, [T("T0", b0)], [T("T1", b1)]])
    m0 = M("M0")
    c = [call("M0")]
    t0, t1 = T("T0", c), T("T1", c)
    a1 = [asg("comb")]
    yield D([[m0, If([t0], a1, has_else=True)], [If(a1, [t1], has_else=True)]])
    yield D([[m0, If([t0])], [If(a1, [t1], has_else=True)]])
    yield D([[m0, If([t0], a1)], [If(a1, [t1])]])
    yield D([[m0, Sw(1, [(0, [t0]), (1, a1)])], [Sw(1, [(0, a1), (1, [t1])])]])
    yield D([[m0, Fsm(([t0], 1, "in"), (a1, 0, "in"))], [Fsm((a1, 1, "in"), ([t1], 0, "in"))]])
    yield D([[m0], [If([t0], a1, has_else=True)], [If(a1, [t1], has_else=True)]])
    for nxa in (False, True):
        ma = M("A", [If([call("M0")], a1, has_else=True)], nx=nxa)
        mb = M("B", [If(a1, [call("M0")], has_else=True)], nx=nxa)
        yield D([[m0], [ma, T("T0", [call("A")])], [mb, T("T1", [call("B")])]])
        yield D([[m0], [ma, mb], [T("T0", [call("A")]), T("T1", [call("B")])]])
        yield D([[m0], [ma], [mb], [T("T0", [call("A"), call("B")])]])
    # one transaction, two calls of one exclusive method through nested bodies of different modules is not expressible
    # (a body belongs to one module); the remaining single-root shape: a nested transaction in another alternative
    yield D([[m0, T("T0", [If([call("M0")], [T("N0", c)], has_else=True)])], [T("T1", [If(a1, c, has_else=True)])]])


def f_plural():
    """designs whose methods are one-element `Methods` collections, called through `Methods.__call__` (arguments and
    enable_call must be forwarded): constant and run-time enables, validated arguments, every small single-method body pair"""
    for d in itertools.chain(f_consten(), f_val(), f_flat(nmeth=1, small=True, args=True)):
        yield dict(d, plural=True)


def f_widecond():
    """If / Elif / Else chains whose conditions are 2-bit values (true when non-zero): assignments in all four domains and
    calls in every branch, at module level, inside a transaction and inside a conditionally called method"""
    doms = ["comb", "sync", "av_comb", "top_comb"]
    A4 = [asg(d) for d in doms]
    m0 = M("M0")
    for d in (D([[If(A4, A4, A4, has_else=True)]]), D([[If(A4, A4)]]), D([[If(A4)] + A4[2:3]]),
              D([[m0, T("T0", [If(A4 + [call("M0")])])]]),
              D([[m0, T("T0", [If(A4[2:3], A4[2:3] + [call("M0")], A4[2:3], has_else=True)])]]),
              D([[m0, T("T0", [If([call("M0")], [call("M0")] + A4[2:3], has_else=True)])]]),
              D([[m0, M("N0", [If(A4, A4 + [call("M0")])]), T("T0", [call("N0", en="in")])]]),
              D([[m0, If([T("T0", [call("M0")])], [T("T1", [call("M0")])])]])):
        yield dict(d, cw=2)


FAMILIES = {
    "widecond": f_widecond,
    "plural": f_plural,
    "xmod": f_xmod,
    "provrel": f_provrel,
    "consten": f_consten,
    "xrel": f_xrel,
    "flat": f_flat, "chain": f_chain, "ctrl": f_ctrl, "rel": f_rel, "nest": f_nest, "val": f_val, "prov": f_prov,
    "bad": f_bad, "fwd": f_fwd,
}


@functools.lru_cache(maxsize=None)
def _count(fam, pjson):
    return sum(1 for _ in FAMILIES[fam](**json.loads(pjson)))


def count(fam, params):
    return _count(fam, json.dumps(params, sort_keys=True))
