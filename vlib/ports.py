"""Method-level harness layer on top of tsx: every provided method of the component under test is
called by one real `AdapterTrans`, every required method is implemented by one real `Adapter`;
the explorer drives the adapters' `en`/`data_in` pins and observes `done`/`data_out`."""
from __future__ import annotations

import itertools
from amaranth import Elaboratable, Module, Shape, Signal
from amaranth.lib import data as adata

from transactron import Method, Methods
from transactron.core.context import TransactronContextElaboratable
from transactron.lib.adapters import Adapter, AdapterTrans
from transactron.utils.dependencies import DependencyContext, DependencyManager

from .tsx import Driver, HarnessError, check_comb_cycles


def unpack(layout, bits: int):
    """bits -> nested python value following an amaranth layout / shape."""
    if isinstance(layout, adata.StructLayout):
        out = {}
        for name, f in layout:
            w = Shape.cast(f.shape).width
            out[name] = unpack(f.shape, (bits >> f.offset) & ((1 << w) - 1))
        return out
    if isinstance(layout, adata.ArrayLayout):
        w = Shape.cast(layout.elem_shape).width
        return [unpack(layout.elem_shape, (bits >> (i * w)) & ((1 << w) - 1)) for i in range(layout.length)]
    if isinstance(layout, (adata.UnionLayout, adata.FlexibleLayout)):
        return bits
    sh = Shape.cast(layout)
    bits &= (1 << sh.width) - 1
    if sh.signed and sh.width and bits >> (sh.width - 1):
        bits -= 1 << sh.width
    return bits


def pack(layout, value) -> int:
    if isinstance(layout, adata.StructLayout):
        out = 0
        for name, f in layout:
            out |= pack(f.shape, value.get(name, 0)) << f.offset
        return out
    if isinstance(layout, adata.ArrayLayout):
        w = Shape.cast(layout.elem_shape).width
        out = 0
        for i, v in enumerate(value):
            out |= pack(layout.elem_shape, v) << (i * w)
        return out
    sh = Shape.cast(layout)
    return int(value) & ((1 << sh.width) - 1)


class ExclusivityMismatch(Exception):
    """a provided method's exclusive/nonexclusive kind differs from what the component documents"""


class Port:
    """kind 't': AdapterTrans calling a provided method;  'a': Adapter implementing a required one."""

    def __init__(self, name, kind, adapter):
        self.name = name
        self.kind = kind
        self.adapter = adapter
        self.in_sig = adapter.data_in.as_value()
        self.out_val = adapter.data_out.as_value()
        self.in_layout = adapter.data_in.shape()
        self.out_layout = adapter.data_out.shape()
        self.in_width = len(self.in_sig)
        self.out_width = len(self.out_val)

    def arg(self, bits):
        return unpack(self.in_layout, bits)

    def ret(self, bits):
        return unpack(self.out_layout, bits)


class _Wrapper(Elaboratable):
    def __init__(self, dut, adapters, extra=()):
        self.dut = dut
        self.adapters = adapters
        self.extra = extra

    def elaborate(self, platform):
        m = Module()
        if self.dut is not None:
            m.submodules.dut = self.dut
        for i, a in enumerate(self.adapters):
            m.submodules[f"ad{i}"] = a
        for i, e in enumerate(self.extra):
            m.submodules[f"ex{i}"] = e
        return m


class Call:
    __slots__ = ("en", "data", "done", "out")

    def __init__(self, en, data, done, out):
        self.en = en
        self.data = data
        self.done = done
        self.out = out

    def __repr__(self):
        return f"Call(en={self.en},data={self.data},done={self.done},out={self.out})"


class MethodHarness:
    """Subclass: set self.cfg, implement make() -> (dut, [(name, 't'|'a', Method)], extra_inputs,
    extra_observed) or the shorter (dut, methods); init(); alphabet(ref); step(ref, inp, obs).

    The same class is the reference model (tsx.Model interface)."""

    transaction_manager = None

    def __init__(self, **cfg):
        self.cfg = cfg
        self.counters = {}

    # -- to override
    def make(self):
        raise NotImplementedError

    def init(self):
        return ()

    def ignore_state(self):
        """Signals (registers) left out of the BFS key; Driver checks structurally that they are write-only sinks."""
        return ()

    def nonexclusive_ports(self):
        """names of the 't' ports whose method the component defines as nonexclusive (library convention: peek, clear, order)"""
        return {p for p in ("peek", "peek2", "clear", "order")}

    def count(self, key, n=1):
        self.counters[key] = self.counters.get(key, 0) + n

    # -- construction
    def _construct(self):
        dm = DependencyManager()
        ctx = DependencyContext(dm)
        ctx.__enter__()
        try:
            made = self.make()
            dut, methods = made[0], made[1]
            extra_in = list(made[2]) if len(made) > 2 else []
            extra_obs = list(made[3]) if len(made) > 3 else []
            extra_sub = list(made[4]) if len(made) > 4 else []
            ports = []
            for name, kind, meth in methods:
                if kind == "t":
                    ad = AdapterTrans.create(meth)
                elif kind == "a":
                    ad = Adapter.create(meth)
                elif kind == "av":
                    ad = Adapter.create(meth).set(with_validate_arguments=True)
                    kind = "a"
                elif kind == "an":
                    ad = Adapter.create(meth, nonexclusive=True)
                    kind = "a"
                else:
                    raise HarnessError(kind)
                ports.append(Port(name, kind, ad))
            kw = {}
            if self.transaction_manager is not None:
                kw["transaction_manager"] = self.transaction_manager()
            top = TransactronContextElaboratable(
                _Wrapper(dut, [p.adapter for p in ports], extra_sub), dependency_manager=dm, **kw)
            return top, ports, extra_in, extra_obs, ctx
        except BaseException:
            ctx.__exit__(None, None, None)
            raise

    def build(self, comb_check=True):
        if comb_check:
            top, _, _, _, ctx = self._construct()
            try:
                check_comb_cycles(top)
            finally:
                ctx.__exit__(None, None, None)
        top, ports, extra_in, extra_obs, ctx = self._construct()
        try:
            self.ports = ports
            self.port = {p.name: p for p in ports}
            inputs, observed = [], []
            self._in_ix, self._obs_ix = {}, {}
            for p in ports:
                self._in_ix[p.name] = (len(inputs), len(inputs) + 1 if p.in_width else None)
                inputs.append((p.name + ".en", p.adapter.en))
                if p.in_width:
                    inputs.append((p.name + ".data", p.in_sig))
                self._obs_ix[p.name] = (len(observed), len(observed) + 1 if p.out_width else None)
                observed.append((p.name + ".done", p.adapter.done))
                if p.out_width:
                    observed.append((p.name + ".out", p.out_val))
            self._xin_ix = {}
            for name, sig in extra_in:
                self._xin_ix[name] = len(inputs)
                inputs.append((name, sig))
            self._xobs_ix = {}
            for name, val in extra_obs:
                self._xobs_ix[name] = len(observed)
                observed.append((name, val))
            self.n_inputs = len(inputs)
            self.input_names = [n for n, _ in inputs]
            self.obs_names = [n for n, _ in observed]
            self.top = top
            drv = Driver(top, inputs, observed, ignore_state=self.ignore_state())
            # structural guard: a provided method is nonexclusive exactly if the component documents it so (peek / clear /
            # order by default); with one caller per method the BFS alone cannot see an exclusive method turning nonexclusive
            want = self.nonexclusive_ports()
            for p in ports:
                if p.kind == "t":
                    try:
                        nx = bool(p.adapter.iface._body.nonexclusive)
                    except Exception:
                        continue
                    if nx != (p.name in want):
                        raise ExclusivityMismatch(f"method behind port '{p.name}' is "
                                                  f"{'nonexclusive' if nx else 'exclusive'}, documented "
                                                  f"{'nonexclusive' if p.name in want else 'exclusive'}")
        finally:
            ctx.__exit__(None, None, None)
        self.drv = drv
        return drv

    # -- decoding helpers
    def calls(self, inp, obs):
        out = {}
        for p in self.ports:
            ie, idt = self._in_ix[p.name]
            oe, odt = self._obs_ix[p.name]
            out[p.name] = Call(inp[ie], inp[idt] if idt is not None else 0, obs[oe], obs[odt] if odt is not None else 0)
        return out

    def xin(self, inp, name):
        return inp[self._xin_ix[name]]

    def xobs(self, obs, name):
        return obs[self._xobs_ix[name]]

    def valuation(self, per_port: dict, extra: dict | None = None):
        """per_port: name -> (en, data_bits); missing ports are idle."""
        v = [0] * self.n_inputs
        for name, (en, dt) in per_port.items():
            ie, idt = self._in_ix[name]
            v[ie] = en
            if idt is not None:
                v[idt] = dt
        if extra:
            for name, val in extra.items():
                v[self._xin_ix[name]] = val
        return tuple(v)

    def product(self, choices: dict, extra: dict | None = None):
        """choices: port name -> list of (en, data) options; extra: input name -> list of values.
        Returns the list of all valuations, all-idle first."""
        names = list(choices)
        xnames = list(extra) if extra else []
        out = []
        for combo in itertools.product(*[choices[n] for n in names], *[extra[x] for x in xnames]):
            per = {n: c for n, c in zip(names, combo[: len(names)])}
            ex = {x: c for x, c in zip(xnames, combo[len(names):])}
            out.append(self.valuation(per, ex))
        return out

    def describe(self, inp):
        return {n: v for n, v in zip(self.input_names, inp) if v}

    def describe_obs(self, obs):
        return {n: v for n, v in zip(self.obs_names, obs)}


def opts(width, enabled_values=None, reduced=True):
    """Options of one port: idle with zero payload (+ idle with other payloads when not reduced),
    enabled with every payload."""
    vals = list(range(1 << width)) if enabled_values is None else list(enabled_values)
    out = [(0, 0)]
    if not reduced:
        out += [(0, v) for v in vals if v != 0]
    out += [(1, v) for v in vals]
    return out


class RawHarness:
    """Plain-Amaranth counterpart of MethodHarness: make() -> (elaboratable, [(name, Signal[, domain])], [(name, Value)]);
    the explorer drives the named signals directly.  Subclass implements init/alphabet/step as for MethodHarness; the
    default alphabet is the product of the input domains."""

    def __init__(self, **cfg):
        self.cfg = cfg
        self.counters = {}

    def make(self):
        raise NotImplementedError

    def init(self):
        return ()

    def count(self, key, n=1):
        self.counters[key] = self.counters.get(key, 0) + n

    def build(self, comb_check=True):
        from amaranth import Value
        if comb_check:
            with DependencyContext(DependencyManager()):
                check_comb_cycles(self.make()[0])
        with DependencyContext(DependencyManager()):
            top, ins, obs = self.make()[:3]
            self.in_domains = []
            inputs = []
            for item in ins:
                sig = Value.cast(item[1])
                inputs.append((item[0], sig))
                if len(item) > 2 and item[2] is not None:
                    self.in_domains.append(list(item[2]))
                else:
                    self.in_domains.append(list(range(1 << len(sig))))
            self.input_names = [n for n, _ in inputs]
            self.obs_names = [n for n, _ in obs]
            self.n_inputs = len(inputs)
            self.top = top
            self.drv = Driver(top, inputs, list(obs))
        return self.drv

    def alphabet(self, ref):
        if not hasattr(self, "_alpha"):
            self._alpha = [tuple(v) for v in itertools.product(*self.in_domains)]
        return self._alpha

    def describe(self, inp):
        return {n: v for n, v in zip(self.input_names, inp) if v}

    def describe_obs(self, obs):
        return {n: v for n, v in zip(self.obs_names, obs)}
