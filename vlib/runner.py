"""Runner: job pool, aggregation, known findings, replay artefacts, evidence."""
from __future__ import annotations

import hashlib
import importlib
import json
import multiprocessing as mp
import os
import subprocess
import sys
import time
import traceback

VERIF = os.path.dirname(os.path.dirname(os.path.abspath(__file__)))
# VERIF_OUT_DIR redirects evidence/replays (used only when a check is pointed at a scratch copy of the library through
# PYTHONPATH while testing seeded changes); the registered commands never set it.
_OUT = os.environ.get("VERIF_OUT_DIR") or VERIF
EVIDENCE_DIR = os.path.join(_OUT, "evidence")
REPLAY_DIR = os.path.join(_OUT, "replays")
KNOWN = os.path.join(VERIF, "known_findings.json")
NCPU = int(os.environ.get("VERIF_JOBS", "16"))


def canon(obj):
    return json.dumps(obj, sort_keys=True, separators=(",", ":"), default=str)


def clause_id(clause: str) -> str:
    return clause.split(":", 1)[0].strip()


# ---------------------------------------------------------------------------------------------
# generic E1 job: explore one harness configuration


def _load(module, cls):
    return getattr(importlib.import_module(module), cls)


def e1_job(module, cls, cfg, caps, nproc=None):
    """Runs in a worker (nproc None) or at top level with its own pool of nproc workers. Returns a plain dict."""
    from . import tsx

    t0 = time.time()
    H = _load(module, cls)
    out = {"kind": "e1", "module": module, "cls": cls, "cfg": cfg, "caps": caps}
    try:
        h = H(**cfg)
        try:
            drv = h.build()
        except tsx.HarnessError:
            raise
        except tsx.CombLoop as e:
            # (the failed build counts as one evaluated case, so that the evidence stays well-formed when every
            # configuration of a run fails this way)
            out.update(error=None, comb_loop=str(e), states=1, transitions=1, violations=[
                {"clauses": ["comb_loop: combinational cycle in elaborated design"], "path": [], "detail": str(e)[:300]}],
                violating=1, counters={}, replayed=0, exhaustive=False, depth_completed=0, caps_hit=[],
                samples=[], distinct_obs=0, wall=time.time() - t0)
            return out
        except Exception as e:
            # the real library refuses to build a configuration the property quantifies over
            out.update(error=None, states=1, transitions=1, violations=[
                {"clauses": [f"elaboration: {type(e).__name__} while building the design"], "path": [],
                 "detail": traceback.format_exc()[-1200:]}],
                violating=1, counters={}, replayed=0, exhaustive=False, depth_completed=0, caps_hit=[],
                samples=[[f"build of {cls} {canon(cfg)} failed: {type(e).__name__}"]], distinct_obs=0, wall=time.time() - t0)
            return out
        res = tsx.explore(drv, h, max_states=caps.get("max_states"), max_depth=caps.get("max_depth"),
                          replay_cap=caps.get("replay_cap", 48),
                          max_seconds=caps.get("max_seconds") or (int(os.environ.get("VERIF_JOB_SECONDS", "0")) or None),
                          parallel=(nproc, module, cls, cfg) if nproc else None)
        viols = []
        for v in res.violations:
            viols.append({
                "clauses": v["clauses"],
                "path": [list(x) for x in v["path"]],
                "path_desc": [h.describe(x) for x in v["path"]],
                "obs": h.describe_obs(v["obs"]),
            })
        out.update(error=None, states=res.states, transitions=res.transitions, violations=viols,
                   violating=res.violating_transitions, counters=dict(h.counters), replayed=res.replayed,
                   exhaustive=res.exhaustive, depth_completed=res.depth_completed, caps_hit=res.caps_hit,
                   samples=[[h.describe(x) for x in p] for p in res.sample_paths][:2],
                   distinct_obs=res.distinct_obs, input_names=h.input_names, wall=time.time() - t0)
    except Exception:
        out.update(error=traceback.format_exc(), states=0, transitions=0, violations=[], violating=0, counters={},
                   replayed=0, exhaustive=False, depth_completed=0, caps_hit=[], samples=[], distinct_obs=0,
                   wall=time.time() - t0)
    return out


def _call(job):
    idx, (module, func, kwargs) = job
    try:
        f = getattr(importlib.import_module(module), func)
        return idx, f(**kwargs)
    except Exception:
        return idx, {"error": traceback.format_exc(), "kind": "crash", "cfg": kwargs}


def run_jobs(jobs, nproc=None, chunksize=1, maxtasks=None):
    """jobs: list of (module, func, kwargs). Results in job order (deterministic)."""
    nproc = nproc or NCPU
    if not jobs:
        return []
    if nproc == 1 or len(jobs) == 1:
        return [_call((i, j))[1] for i, j in enumerate(jobs)]
    ctx = mp.get_context("fork")
    out = [None] * len(jobs)
    with ctx.Pool(min(nproc, len(jobs)), maxtasksperchild=maxtasks) as pool:
        for idx, r in pool.imap_unordered(_call, list(enumerate(jobs)), chunksize):
            out[idx] = r
    return out


def run_big(jobs, nproc=None):
    """Runs E1 jobs one after the other, each with a level-parallel BFS over nproc workers."""
    out = []
    for _, _, kw in jobs:
        out.append(e1_job(nproc=nproc or NCPU, **kw))
    return out


def E1(module, cls, cfg, **caps):
    return ("vlib.runner", "e1_job", {"module": module, "cls": cls, "cfg": cfg, "caps": caps})


# ---------------------------------------------------------------------------------------------
# findings


def load_known():
    if not os.path.exists(KNOWN):
        return []
    with open(KNOWN) as f:
        return json.load(f).get("findings", [])


def signature(prop, where, cfg, clause, path):
    return f"{prop}/{where}/{canon(cfg)}/{clause_id(clause)}/{canon(path)}"


def finding_matches(match, v):
    """A known finding may name the failing shape by a pattern instead of a list of exact signatures:
    {"where": harness/family, "clause": clause id, "cfg": {key: value | [allowed values]}, "cfg_has": {key: substring}} --
    every given item must match; anything else about the violation is free, anything not matching is reported normally."""
    if not match:
        return False
    if "where" in match and v["where"] != match["where"]:
        return False
    if "clause" in match:
        want = match["clause"] if isinstance(match["clause"], list) else [match["clause"]]
        if clause_id(v["clause"]) not in want:
            return False
    cfg = v.get("cfg") or {}
    for k, want in (match.get("cfg") or {}).items():
        got = cfg.get(k) if isinstance(cfg, dict) else None
        if isinstance(want, list):
            if got not in want:
                return False
        elif got != want:
            return False
    for k, sub in (match.get("cfg_has") or {}).items():
        if sub not in canon(cfg.get(k) if isinstance(cfg, dict) else None):
            return False
    return True


class Report:
    """Collects what one check run covered and decides the exit status."""

    def __init__(self, prop, tier, seed):
        self.prop = prop
        self.tier = tier
        self.seed = seed
        self.t0 = time.time()
        self.states = 0
        self.transitions = 0
        self.evaluations = 0
        self.replayed = 0
        self.nontrivial = 0
        self.counters = {}
        self.exhaustive = True
        self.samples = []
        self.per_config = []
        self.viol = []          # dicts: where, cfg, clause, path, detail, replay
        self.errors = []
        self.assumptions = []
        self.rule = ""
        self.extra = {}
        self.caps = []

    def bump(self, key, n=1):
        self.counters[key] = self.counters.get(key, 0) + n

    def add_e1(self, results):
        for r in results:
            if r.get("error"):
                self.errors.append(f"{r.get('cls')} {canon(r.get('cfg'))}: {r['error']}")
                continue
            self.states += r["states"]
            self.transitions += r["transitions"]
            self.evaluations += r["transitions"]
            self.replayed += r["replayed"]
            for k, v in r["counters"].items():
                self.bump(k, v)
            if not r["exhaustive"]:
                self.exhaustive = False
                self.caps.append({"cfg": r["cfg"], "caps_hit": r["caps_hit"], "depth_completed": r["depth_completed"]})
            self.per_config.append({"harness": r["cls"], "cfg": r["cfg"], "states": r["states"],
                                    "transitions": r["transitions"], "exhaustive": r["exhaustive"],
                                    "depth_completed": r["depth_completed"], "violating_transitions": r["violating"],
                                    "distinct_observations": r["distinct_obs"], "replayed": r["replayed"],
                                    "wall_s": round(r["wall"], 2)})
            if r["samples"] and len(self.samples) < 6:
                self.samples.append({"harness": r["cls"], "cfg": r["cfg"], "path": r["samples"][-1]})
            for v in r["violations"][:1]:
                self.violation(where=r["cls"], cfg=r["cfg"], clause=v["clauses"][0], path=v["path"],
                               detail={"path_desc": v.get("path_desc"), "obs": v.get("obs"), "clauses": v["clauses"],
                                       "violating_transitions": r["violating"]},
                               replay={"kind": "e1", "module": r["module"], "cls": r["cls"], "cfg": r["cfg"],
                                       "path": v["path"], "input_names": r.get("input_names")})

    def violation(self, *, where, cfg, clause, path, detail=None, replay=None):
        self.viol.append({"where": where, "cfg": cfg, "clause": clause, "path": path, "detail": detail,
                          "replay": replay, "signature": signature(self.prop, where, cfg, clause, path)})

    def finish(self, *, floors=None, level="model_checking"):
        """Writes evidence, prints verdict lines, returns exit status."""
        known = [k for k in load_known() if k.get("property") == self.prop]
        open_sigs = {}
        for k in known:
            if k.get("status") == "open":
                for s in k.get("signatures", []):
                    open_sigs[s] = k
        status = 0
        new, known_hit = [], []
        for v in self.viol:
            k = open_sigs.get(v["signature"])
            if k is None:
                k = next((f for f in known if f.get("status") == "open" and finding_matches(f.get("match"), v)), None)
            if k is not None:
                known_hit.append((k, v))
            else:
                new.append(v)
        printed = set()
        for k, v in known_hit:
            key = k.get("id", k.get("what"))
            if key not in printed:
                printed.add(key)
                print(f"KNOWN-FINDING: property={self.prop} {k.get('what')}")
        rdir = os.path.join(REPLAY_DIR, self.prop)
        os.makedirs(rdir, exist_ok=True)
        for f in os.listdir(rdir):   # replay artefacts always describe the latest run only
            if f.endswith(".json"):
                os.unlink(os.path.join(rdir, f))
        for v in new:
            h = hashlib.sha1(v["signature"].encode()).hexdigest()[:12]
            path = os.path.join(REPLAY_DIR, self.prop, f"{h}.json")
            with open(path, "w") as f:
                json.dump({"property": self.prop, "signature": v["signature"], "where": v["where"], "cfg": v["cfg"],
                           "clause": v["clause"], "detail": v["detail"], "replay": v["replay"]}, f, indent=1, default=str)
            print(f"VIOLATION property={self.prop} replay={path}")
            print(f"  {v['where']} {canon(v['cfg'])}: {v['clause']}")
            status = 1
        if self.errors:
            for e in self.errors[:5]:
                print("HARNESS-ERROR:", e, file=sys.stderr)
            status = max(status, 2) if status == 0 else status
        floors = floors or {}
        for key, floor in floors.items():
            got = getattr(self, key, None)
            if got is None:
                got = self.counters.get(key, 0)
            if got < floor:
                print(f"HARNESS-ERROR: vacuity guard: {key}={got} < {floor}", file=sys.stderr)
                if status == 0:
                    status = 2
        wall = time.time() - self.t0
        cov = {
            "states": max(self.states, 0),
            "transitions": max(self.transitions, 0),
            "traces_validated_against_impl": self.replayed,
            "samples": self.samples[:6] if self.samples else [],
            "evaluations": self.evaluations,
            "distinct_nontrivial": self.nontrivial if self.nontrivial else sum(
                v for k, v in self.counters.items() if k.startswith("nt_")),
            "rule": self.rule,
            "exhaustive": bool(self.exhaustive),
            "counters": self.counters,
            "per_config": self.per_config if len(self.per_config) <= 400 else self.per_config[:400],
            "configs": len(self.per_config),
            "caps_hit": self.caps[:50],
            "known_findings_matched": len(known_hit),
            "new_violations": len(new),
        }
        cov.update(self.extra)
        try:
            import transactron
            cov["library_under_test"] = os.path.dirname(os.path.abspath(transactron.__file__))
        except Exception:
            pass
        ev = {"property_id": self.prop, "tier": self.tier, "seed": self.seed, "level": level, "coverage": cov,
              "assumptions": self.assumptions, "wall_s": round(wall, 2), "violations": len(new)}
        os.makedirs(EVIDENCE_DIR, exist_ok=True)
        evp = os.path.join(EVIDENCE_DIR, f"{self.prop}.json")
        with open(evp, "w") as f:
            json.dump(ev, f, indent=1, default=str)
        validate_evidence(evp)
        print(f"{self.prop} tier={self.tier} states={self.states} transitions={self.transitions} "
              f"evaluations={self.evaluations} replayed={self.replayed} exhaustive={self.exhaustive} "
              f"new_violations={len(new)} known={len(known_hit)} wall={wall:.1f}s status={status}")
        return status


def validate_evidence(path):
    schema = "/root/.vp/EVIDENCE.schema.json"
    if not os.path.exists(schema):
        schema = os.path.join(VERIF, "schemas", "EVIDENCE.schema.json")
    code = ("import json,sys,jsonschema;"
            f"jsonschema.validate(json.load(open({path!r})), json.load(open({schema!r})))")
    for py in ("python3-vt", "/opt/veriftools/pyvenv/bin/python"):
        try:
            r = subprocess.run([py, "-c", code], capture_output=True, text=True)
        except FileNotFoundError:
            continue
        if r.returncode != 0:
            print("HARNESS-ERROR: evidence does not validate:", r.stderr[-500:], file=sys.stderr)
            sys.exit(2)
        return
