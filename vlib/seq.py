"""E4 -- operation-sequence explorer for plain Python objects (DESIGN.md sec. 2.4).

A *universe* is a dict with
  make()                 -> fresh real object                      (live objects do not copy: every history is replayed from scratch)
  ops                    -> list of JSON-able operation descriptors, simplest first
  apply(obj, op)         -> observable result of the operation on the real object (exceptions caught by the universe)
  model()                -> fresh reference model
  model_apply(ref, op)   -> expected observable result (None component = unspecified)
  canon(obj)             -> hashable canonical form of the real object's state (property-relevant fields, with the argument
                            why merged states have the same futures given in the universe's docstring)
  model_canon(ref)       -> hashable canonical form of the model state
BFS over histories with de-duplication on (canon, model_canon); the oracle compares the result of the *last* operation of
every explored history (all earlier ones were compared when their prefix was explored).
"""
from __future__ import annotations

import importlib
import time
import traceback


def explore(u, depth, max_states=None):
    ops = u["ops"]
    seen = {}
    frontier = [()]
    obj, ref = u["make"](), u["model"]()
    seen[(u["canon"](obj), u["model_canon"](ref))] = ()
    out = {"states": 1, "transitions": 0, "violations": [], "violating": 0, "exhaustive": True, "depth_completed": 0,
           "histories_replayed": 0, "distinct_results": set(), "counters": {}, "sample": None}
    for d in range(depth):
        nxt = []
        for hist in frontier:
            for op in ops:
                obj, ref = u["make"](), u["model"]()
                for h in hist:
                    u["apply"](obj, h)
                    u["model_apply"](ref, h)
                got = u["apply"](obj, op)
                exp = u["model_apply"](ref, op)
                out["transitions"] += 1
                out["histories_replayed"] += 1
                out["distinct_results"].add(repr(got))
                bad = u["compare"](got, exp) if "compare" in u else (None if got == exp else f"got {got!r} expected {exp!r}")
                if "count" in u:
                    for k in u["count"](hist, op, got):
                        out["counters"][k] = out["counters"].get(k, 0) + 1
                if bad:
                    out["violating"] += 1
                    if len(out["violations"]) < 3:
                        out["violations"].append({"clause": bad, "history": list(hist) + [op]})
                    continue
                key = (u["canon"](obj), u["model_canon"](ref))
                if key not in seen:
                    seen[key] = hist + (op,)
                    nxt.append(hist + (op,))
                    if max_states and len(seen) >= max_states:
                        out["exhaustive"] = False
        frontier = nxt
        out["depth_completed"] = d + 1
        if not frontier:
            break
        out["sample"] = list(frontier[-1])
    else:
        if frontier:
            out["exhaustive"] = False     # depth bound reached with unexplored states left
    out["states"] = len(seen)
    out["distinct_results"] = len(out["distinct_results"])
    return out


def seq_job(module, func, cfg, depth, max_states=None):
    t0 = time.time()
    res = {"kind": "seq", "module": module, "func": func, "cfg": cfg, "depth": depth, "error": None}
    try:
        u = getattr(importlib.import_module(module), func)(**cfg)
        res.update(explore(u, depth, max_states))
    except Exception:
        res["error"] = traceback.format_exc()
    res["wall"] = time.time() - t0
    return res


def SEQ(module, func, cfg, depth, **kw):
    return ("vlib.seq", "seq_job", dict(module=module, func=func, cfg=cfg, depth=depth, **kw))


def add_seq(rep, results):
    for r in results:
        if r.get("error"):
            rep.errors.append(f"{r.get('func')} {r.get('cfg')}: {r['error']}")
            continue
        rep.states += r["states"]
        rep.transitions += r["transitions"]
        rep.evaluations += r["transitions"]
        rep.replayed += r["histories_replayed"]
        rep.bump("nt_distinct_results", r["distinct_results"])
        for k, v in r["counters"].items():
            rep.bump(k, v)
        if not r["exhaustive"]:
            rep.exhaustive = False
            rep.caps.append({"cfg": r["cfg"], "depth_completed": r["depth_completed"]})
        rep.per_config.append({"universe": r["func"], "cfg": r["cfg"], "depth": r["depth"], "states": r["states"],
                               "histories": r["transitions"], "violating": r["violating"],
                               "all_reachable_states_found": r["exhaustive"], "wall_s": round(r["wall"], 2)})
        if r.get("sample") and len(rep.samples) < 6:
            rep.samples.append({"universe": r["func"], "cfg": r["cfg"], "history": r["sample"]})
        for v in r["violations"][:1]:
            rep.violation(where=r["func"], cfg=r["cfg"], clause=v["clause"], path=v["history"],
                          detail={"history": v["history"], "violating_histories": r["violating"]},
                          replay={"kind": "seq", "module": "vlib.seq", "spec_module": r["module"], "func": r["func"],
                                  "cfg": r["cfg"], "history": v["history"]})


def replay(rp):
    u = getattr(importlib.import_module(rp["spec_module"]), rp["func"])(**rp["cfg"])
    obj, ref = u["make"](), u["model"]()
    ok = True
    for op in rp["history"]:
        op = tuple(op) if isinstance(op, list) else op
        got = u["apply"](obj, op)
        exp = u["model_apply"](ref, op)
        bad = u["compare"](got, exp) if "compare" in u else (None if got == exp else f"got {got!r} expected {exp!r}")
        print(f"  {op}: {got!r}" + (f"   <-- {bad}" if bad else ""))
        if bad:
            ok = False
            break
    return ok
