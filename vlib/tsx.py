"""E1 -- explicit-state transition-system explorer over an elaborated Amaranth design.

The design is built by the real library, executed by Amaranth's own pysim engine; this
module only owns the nondeterminism: which input valuation is applied in which reachable
state.  See DESIGN.md sec. 2.1.
"""
from __future__ import annotations

import warnings
from collections import deque

from amaranth import Signal, Value
from amaranth.hdl import Fragment
from amaranth.sim import Simulator
from amaranth.sim.pysim import _PySignalState, _PyMemoryState


class HarnessError(Exception):
    """The machinery (not the property) failed: exit status 2."""


class CombLoop(Exception):
    pass


def check_comb_cycles(top):
    """Bit-precise combinational cycle check on a *fresh* elaboratable (pysim never checks)."""
    from amaranth.hdl._ir import build_netlist
    from amaranth.hdl._nir import CombinationalCycle

    with warnings.catch_warnings():
        warnings.simplefilter("ignore")
        try:
            build_netlist(Fragment.get(top, None), ports=[])
        except CombinationalCycle as e:
            raise CombLoop(str(e)) from e


def sink_only_check(design, sigs):
    """Structural justification for leaving registers out of the BFS key: every statement of the prepared design that
    *reads* one of `sigs` assigns only to signals of `sigs` (write-only accumulators: their value can influence nothing
    but themselves).  Statement granularity is the top-level statement (a Switch counts with everything inside)."""
    from amaranth.hdl._ast import SignalSet
    S = SignalSet(sigs)
    for fragment in design.fragments:
        for domain, stmts in fragment.statements.items():
            for stmt in stmts:
                rhs = stmt._rhs_signals()
                if any(r in S for r in rhs):
                    for l in stmt._lhs_signals():
                        if l not in S:
                            raise HarnessError(f"register excluded from the state key feeds {l.name}: not a write-only sink")


class Driver:
    """Hand-driven pysim instance: snapshot / restore / one-cycle step.

    inputs   : list of (name, Signal) -- signals nobody in the design drives
    observed : list of (name, Value)  -- anything readable
    """

    def __init__(self, top, inputs, observed, ignore_state=()):
        self.ignore_sigs = list(ignore_state)
        with warnings.catch_warnings():
            warnings.simplefilter("ignore")
            self.sim = Simulator(top)
        self.eng = self.sim._engine
        self.st = self.eng._state
        self.in_names = [n for n, _ in inputs]
        self.in_sigs = [s for _, s in inputs]
        self.obs_names = [n for n, _ in observed]
        self.obs_vals = [Value.cast(v) for _, v in observed]
        for s in self.in_sigs:
            if not isinstance(s, Signal):
                raise HarnessError(f"input {s!r} is not a Signal")
        domains = self.sim._design.fragment.domains
        self.clk = None
        self.clocked = "sync" in domains
        if self.clocked:
            self.sim.add_clock(1e-6)
            self.clk = domains["sync"].clk
        self._bind()

    # -- binding to engine slots (redone after Simulator.reset(): slots persist, so only once)
    def _bind(self):
        st = self.st
        self.in_slots = [st.slots[st.get_signal(s)] for s in self.in_sigs]
        for sl, s in zip(self.in_slots, self.in_sigs):
            if sl.is_comb:
                raise HarnessError(f"input signal {s.name} is driven by the design")
        self.clk_slot = st.slots[st.get_signal(self.clk)] if self.clk is not None else None
        excl = set(id(s) for s in self.in_slots)
        if self.clk_slot is not None:
            excl.add(id(self.clk_slot))
        if self.ignore_sigs:
            sink_only_check(self.sim._design, self.ignore_sigs)
            for s in self.ignore_sigs:
                excl.add(id(st.slots[st.get_signal(s)]))
        self.reg_slots = []
        self.mem_slots = []
        for sl in st.slots:
            if isinstance(sl, _PyMemoryState):
                self.mem_slots.append(sl)
            elif isinstance(sl, _PySignalState):
                if not sl.is_comb and id(sl) not in excl:
                    self.reg_slots.append(sl)
        self.n_slots = len(st.slots)
        self.eng.step_design()
        # the compiled expression evaluators of get_value may allocate slots lazily
        for v in self.obs_vals:
            self.eng.get_value(v)
        if len(st.slots) != self.n_slots:
            # an observed signal that the design never mentions: constant, harmless
            self.n_slots = len(st.slots)

    def state_names(self):
        return [sl.signal.name for sl in self.reg_slots] + [f"mem{ i }" for i, _ in enumerate(self.mem_slots)]

    # -- snapshot / restore
    def snapshot(self):
        regs = tuple(sl.curr for sl in self.reg_slots)
        if self.mem_slots:
            return regs + tuple(tuple(m.data) for m in self.mem_slots)
        return regs

    def restore(self, state):
        n = len(self.reg_slots)
        for sl, v in zip(self.reg_slots, state):
            if sl.next != v:
                sl.update(v)
        for m, data in zip(self.mem_slots, state[n:]):
            cur = m.data
            for a, v in enumerate(data):
                if cur[a] != v:
                    m.write(a, v)
        self.eng.step_design()

    def reset(self):
        """Back to the power-on state (through the engine's own reset)."""
        self.sim.reset()
        self.eng.step_design()
        return self.snapshot()

    # -- one cycle
    def apply(self, valuation):
        for sl, v in zip(self.in_slots, valuation):
            if sl.next != v:
                sl.update(v)
        self.eng.step_design()
        gv = self.eng.get_value
        return tuple(gv(v) for v in self.obs_vals)

    def observe(self):
        gv = self.eng.get_value
        return tuple(gv(v) for v in self.obs_vals)

    def clock(self):
        if self.clk_slot is not None:
            self.clk_slot.update(1)
            self.eng.step_design()
            self.clk_slot.update(0)
            self.eng.step_design()
        return self.snapshot()

    # -- replay through the public simulator API only
    def public_replay(self, path):
        """Replays `path` (list of valuations) from reset using add_testbench/ctx.set/ctx.get/
        ctx.tick only.  Returns (list of observation tuples, final state vector)."""
        if not hasattr(self, "_replay_box"):
            self._replay_box = {"path": None, "obs": None}
            box = self._replay_box
            in_sigs, obs_vals, clocked = self.in_sigs, self.obs_vals, self.clocked

            async def tb(ctx):
                out = []
                for val in box["path"]:
                    for s, v in zip(in_sigs, val):
                        ctx.set(s, v)
                    out.append(tuple(ctx.get(v) for v in obs_vals))
                    if clocked:
                        await ctx.tick()
                box["obs"] = out
                box["final"] = self.snapshot()

            self.sim.reset()
            self.sim.add_testbench(tb)
        box = self._replay_box
        box["path"] = path
        box["obs"] = None
        self.sim.reset()
        self.sim.run()
        obs, final = box["obs"], box["final"]
        # leave the engine in a clean hand-driven condition again
        self.sim.reset()
        self.eng.step_design()
        if self.clk_slot is not None and self.clk_slot.curr != 0:
            raise HarnessError("clock not low after reset")
        return obs, final


class Model:
    """Reference-model interface used by `explore` (duck-typed; subclass for convenience)."""

    def init(self):
        return ()

    def alphabet(self, ref):
        raise NotImplementedError

    def step(self, ref, inp, obs):
        """-> (violations: list[str], next_ref)"""
        raise NotImplementedError


class Result:
    def __init__(self):
        self.states = 0
        self.transitions = 0
        self.violating_transitions = 0
        self.violations = []          # first few, with paths
        self.exhaustive = True
        self.depth_completed = 0
        self.caps_hit = []
        self.replayed = 0
        self.max_depth_seen = 0
        self.distinct_obs = 0
        self.sample_paths = []

    def as_dict(self):
        return dict(self.__dict__)


def safe_step(model, ref, inp, obs):
    """model.step, with an observation the reference model cannot interpret at all (it raises) reported as a violation."""
    try:
        return model.step(ref, inp, obs)
    except HarnessError:
        raise
    except Exception as e:
        import traceback
        where = traceback.extract_tb(e.__traceback__)[-1]
        return [f"model.cannot_follow: {type(e).__name__} at {where.name}:{where.lineno} - the circuit did something the "
                f"reference model has no interpretation for"], ref


def expand_chunk(drv: Driver, model, chunk, max_violations=3):
    """Expands every state of `chunk` (list of (idx, hw, ref)) with every valuation.  Returns
    (new: list of (key, parent idx, inp) de-duplicated inside the chunk in discovery order,
     transitions, violating, violations, obs_set)."""
    new = {}
    order = []
    transitions = 0
    violating = 0
    violations = []
    obs_seen = set()
    for idx, hw, ref in chunk:
        for inp in model.alphabet(ref):
            drv.restore(hw)
            obs = drv.apply(inp)
            viols, nref = safe_step(model, ref, inp, obs)
            transitions += 1
            obs_seen.add(obs)
            if viols:
                violating += 1
                if len(violations) < max_violations:
                    violations.append({"state_index": idx, "input": inp, "obs": obs, "clauses": list(viols)})
                continue
            key = (drv.clock(), nref)
            if key not in new:
                new[key] = None
                order.append((key, idx, inp))
    return order, transitions, violating, violations, obs_seen


_W = {}


def _winit(module, cls, cfg):
    import importlib
    H = getattr(importlib.import_module(module), cls)
    h = H(**cfg)
    _W["h"] = h
    _W["drv"] = h.build(comb_check=False)


def _wlevel(chunk):
    h = _W["h"]
    before = dict(h.counters)
    out = expand_chunk(_W["drv"], h, chunk)
    delta = {k: v - before.get(k, 0) for k, v in h.counters.items() if v != before.get(k, 0)}
    return out + (delta,)


def explore(drv: Driver, model, *, max_states=None, max_depth=None, max_violations=3,
            replay_cap=64, parallel=None, max_seconds=None):
    """Level-synchronous BFS over (hardware state, reference state) with every valuation of
    model.alphabet(ref) tried in every state.  Deterministic (state numbering and the first
    violation do not depend on the number of workers); the first violation is a shortest one.

    parallel = (nproc, module, cls, cfg): the frontier of each level is split among nproc worker
    processes, each owning its own simulator of the same design."""
    import time as _time
    _t0 = _time.time()
    res = Result()
    hw0 = drv.reset()
    ref0 = model.init()
    seen = {(hw0, ref0): 0}
    keys = [(hw0, ref0)]
    parent = [(-1, None)]
    depth = [0]
    obs_seen = set()
    has_child = set()
    level = [0]
    d = 0
    pool = None
    if parallel is not None:
        import multiprocessing as mp
        nproc, module, cls, cfg = parallel
        pool = mp.get_context("fork").Pool(nproc, initializer=_winit, initargs=(module, cls, cfg))
    try:
        while level:
            if max_depth is not None and d >= max_depth:
                res.exhaustive = False
                res.caps_hit.append("max_depth")
                break
            if max_states is not None and len(keys) >= max_states:
                res.exhaustive = False
                res.caps_hit.append("max_states")
                break
            if max_seconds is not None and d > 0 and _time.time() - _t0 > max_seconds:
                # wall-time budget (thorough tier): stop between levels; all histories up to depth d are covered
                res.exhaustive = False
                res.caps_hit.append("max_seconds")
                break
            items = [(i, keys[i][0], keys[i][1]) for i in level]
            if pool is not None and len(items) >= 8:
                nchunks = min(len(items), nproc * 4)
                size = (len(items) + nchunks - 1) // nchunks
                chunks = [items[k:k + size] for k in range(0, len(items), size)]
                outs = pool.map(_wlevel, chunks)
                for o in outs:
                    for k, v in o[5].items():
                        model.counters[k] = model.counters.get(k, 0) + v
            else:
                outs = [expand_chunk(drv, model, items, max_violations)]
            nxt = []
            for o in outs:
                order, tr, vio, viols, obs = o[:5]
                res.transitions += tr
                res.violating_transitions += vio
                obs_seen |= obs
                for v in viols:
                    if len(res.violations) < max_violations:
                        res.violations.append(v)
                for key, pidx, inp in order:
                    if key not in seen:
                        j = len(keys)
                        seen[key] = j
                        keys.append(key)
                        parent.append((pidx, inp))
                        depth.append(d + 1)
                        nxt.append(j)
                        has_child.add(pidx)
            level = nxt
            d += 1
    finally:
        if pool is not None:
            pool.terminate()
            pool.join()
    res.states = len(keys)
    res.max_depth_seen = max(depth)
    res.distinct_obs = len(obs_seen)
    res.depth_completed = d if not res.exhaustive else res.max_depth_seen

    def path_to(i):
        p = []
        while i > 0:
            i, inp = parent[i]
            p.append(inp)
        p.reverse()
        return p

    for v in res.violations:
        v["path"] = path_to(v["state_index"]) + [v["input"]]

    # conformance: BFS-tree leaves replayed from reset through the public API
    leaves = [i for i in range(len(keys)) if i not in has_child and i != 0]
    if not leaves and len(keys) > 1:
        leaves = [len(keys) - 1]
    if len(keys) == 1 and replay_cap:
        # single-state design: validate the hand-driven evaluation of one-step paths instead
        alpha = list(model.alphabet(ref0))
        for val in ([alpha[0], alpha[-1]] if len(alpha) > 1 else alpha):
            drv.restore(hw0)
            mine = drv.apply(val)
            obs_list, _ = drv.public_replay([val])
            if obs_list[0] != mine:
                raise HarnessError(f"public-API evaluation differs from explorer: {obs_list[0]} != {mine}")
            res.replayed += 1
        res.sample_paths = [[alpha[-1]]]
    if len(leaves) > replay_cap:
        step = len(leaves) / replay_cap
        leaves = [leaves[int(k * step)] for k in range(replay_cap)]
    saved = dict(model.counters) if hasattr(model, "counters") else None
    for i in leaves:
        p = path_to(i)
        obs_list, final = drv.public_replay(p)
        if final != keys[i][0]:
            raise HarnessError(f"public-API replay diverged from explorer on path of length {len(p)}: "
                               f"{final} != {keys[i][0]}")
        # re-run the oracle along the replayed path: it must not complain (BFS did not)
        ref = model.init()
        for inp, obs in zip(p, obs_list):
            viols, ref = model.step(ref, inp, obs)
            if viols:
                raise HarnessError(f"oracle complains on public-API replay but not in BFS: {viols}")
        if ref != keys[i][1]:
            raise HarnessError("reference state diverged on replay")
        res.replayed += 1
    if saved is not None:
        model.counters.clear()
        model.counters.update(saved)
    if leaves:
        res.sample_paths = [path_to(leaves[0]), path_to(leaves[-1])]
    return res


def replay_path(drv: Driver, model, path):
    """Stand-alone replay of one path through the public API; returns the list of violations
    met (per step)."""
    obs_list, _ = drv.public_replay(path)
    ref = model.init()
    out = []
    for k, (inp, obs) in enumerate(zip(path, obs_list)):
        viols, ref = safe_step(model, ref, inp, obs)
        if viols:
            out.append({"step": k, "input": inp, "obs": obs, "clauses": list(viols)})
            break
    return out
